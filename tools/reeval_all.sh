#!/bin/bash
# Re-run the current quick checks against every seeded change (meta.json is rewritten; the earlier
# confirmation of the repository test-suite run is kept).  usage: tools/reeval_all.sh [name-prefix]
cd "$(dirname "$0")/.."
for d in seeded/${1:-}*/; do
  name=$(basename "$d")
  prop=$(python3 -c "import json;print(json.load(open('$d/meta.json'))['property'])")
  checks=$(python3 -c "import json;print(','.join(json.load(open('$d/meta.json'))['checks']))")
  echo "== $name ($checks)"
  python3 tools/seed_eval.py "$d" "$prop" "$name" --checks "$checks" --skip-tests | grep -E '"detected"' | tr -d '\n'; echo
done
