#!/usr/bin/env python3
"""Systematic single-token mutation sweep (an evaluation of the checks, not a check).

For every property, the source files its anchors name are tokenised and single-token
mutants are generated (comparison and arithmetic operators, and/or, min/max, all/any,
True/False).  A deterministic stride keeps at most N mutants per property.  Each mutant
is applied to a scratch copy of /repo/src; if the repository's own test-suite still
passes with it, the property's quick check is run against the scratch copy.

usage: tools/mutation_sweep.py [--per-property N] [--jobs J] [--props C01,C02] [--out results.json]
"""
import argparse
import io
import json
import multiprocessing as mp
import os
import shutil
import subprocess
import tempfile
import time
import tokenize
from pathlib import Path

ROOT = Path(__file__).resolve().parent.parent
REPO = Path("/repo")
SWAPS = {
    "<": "<=", "<=": "<", ">": ">=", ">=": ">", "==": "!=", "!=": "==", "+": "-", "-": "+",
    "and": "or", "or": "and", "min": "max", "max": "min", "all": "any", "any": "all", "True": "False", "False": "True",
    "+=": "-=", "-=": "+=",
}
FLAKY = "tests/actor/test_actor.py::test_does_not_restart_on_normal_exit"


def candidates(path: Path):
    src = path.read_text()
    out = []
    depth_sig = 0
    try:
        toks = list(tokenize.generate_tokens(io.StringIO(src).readline))
    except tokenize.TokenError:
        return out
    lines = src.splitlines()
    for t in toks:
        if t.type not in (tokenize.OP, tokenize.NAME):
            continue
        if t.string not in SWAPS:
            continue
        line = lines[t.start[0] - 1]
        st = line.strip()
        if st.startswith(("def ", "async def ", "import ", "from ", "@", "class ", "raise ", "assert ", "_logger", "f\"", "\"")):
            continue
        if "->" in line or "_logger." in line or "TypeVar" in line or "Callable[" in line:
            continue
        if t.string in ("-", "+") and line[: t.start[1]].rstrip().endswith(("(", ",", "=", "[", "return", ":")):
            continue  # unary
        if t.string in ("min", "max", "all", "any") and not line[t.end[1]:].startswith("("):
            continue
        if t.string in ("True", "False") and ("=" not in line or "def " in line):
            continue
        out.append((t.start[0], t.start[1], t.string))
    return out


def apply_mutant(src_root: Path, rel: str, line: int, col: int, tok: str):
    p = src_root.parent / rel  # rel is like src/frequenz/...
    lines = p.read_text().split("\n")
    l = lines[line - 1]
    assert l[col: col + len(tok)] == tok, (rel, line, col, tok, l)
    lines[line - 1] = l[:col] + SWAPS[tok] + l[col + len(tok):]
    p.write_text("\n".join(lines))
    return l.strip(), lines[line - 1].strip()


SKIP_TESTS = False


def _init(skip):
    global SKIP_TESTS
    SKIP_TESTS = skip


def run_one(job):
    pids, rel, line, col, tok = job
    pid = ",".join(pids)
    d = Path(tempfile.mkdtemp(prefix="verif_mut_", dir="/dev/shm" if os.path.isdir("/dev/shm") else None))
    res = {"property": pid, "file": rel, "line": line, "col": col, "token": tok, "replacement": SWAPS[tok]}
    try:
        shutil.copytree(REPO / "src", d / "src")
        before, after = apply_mutant(d / "src", rel, line, col, tok)
        res["before"], res["after"] = before, after
        env = dict(os.environ, PYTHONPATH=str(d / "src"), PYTHONDONTWRITEBYTECODE="1")
        t0 = time.time()
        if SKIP_TESTS:
            r = subprocess.CompletedProcess([], 0, "", "")
        else:
          try:
            r = subprocess.run(
                ["/venv/bin/python", "-m", "pytest", "tests", "-q", "-x", "-p", "no:cacheprovider", "-n", "4", "--deselect", FLAKY,
                 "--timeout=40"],
                cwd=REPO, env=env, capture_output=True, text=True, timeout=150,
            )
          except subprocess.TimeoutExpired:
            res["tests_s"] = round(time.time() - t0, 1)
            res["tests_pass"] = False
            res["killed_by"] = "test-suite hangs (timeout)"
            # xdist workers of the hung run: they carry the scratch path in their environment only, so find them by cwd/ppid
            subprocess.run("ps -eo pid,args | grep 'pytest tests -q -x' | grep -v grep | awk '{print $1}' | "
                           "while read p; do if grep -q %s /proc/$p/environ 2>/dev/null; then kill -9 $p; fi; done" % d,
                           shell=True, capture_output=True)
            return res
        res["tests_s"] = round(time.time() - t0, 1)
        res["tests_pass"] = r.returncode == 0
        if not res["tests_pass"]:
            tail = [x for x in r.stdout.splitlines() if x.startswith(("FAILED", "ERROR"))][:1]
            res["killed_by"] = tail[0][:160] if tail else r.stdout[-160:]
            return res
        t0 = time.time()
        env2 = dict(os.environ, VERIF_REPO_SRC=str(d / "src"), VERIF_NO_EVIDENCE="1", VERIF_WORKERS="4")
        res["detected"] = False
        res["checks_run"] = []
        for one in pids:  # every property that anchors this file, until one check reports the mutant
            c = subprocess.run(["./check", one, "quick"], cwd=ROOT, env=env2, capture_output=True, text=True, timeout=3600)
            res["checks_run"].append([one, c.returncode])
            if c.returncode not in (0, 1):
                res["infra"] = (c.stderr or c.stdout)[-300:]
            if c.returncode == 1 and "VIOLATION" in c.stdout:
                res["detected"] = True
                res["detected_by"] = one
                cl = [x for x in c.stdout.splitlines() if "clause=" in x][:1]
                res["clause"] = cl[0].split("clause=")[1].split(" ")[0] if cl else None
                break
        res["check_s"] = round(time.time() - t0, 1)
        return res
    except Exception as e:  # noqa: BLE001
        res["error"] = repr(e)[:300]
        return res
    finally:
        shutil.rmtree(d, ignore_errors=True)


def main():
    ap = argparse.ArgumentParser()
    ap.add_argument("--per-property", type=int, default=12, help="mutants per source file")
    ap.add_argument("--jobs", type=int, default=4)
    ap.add_argument("--props", default=None)
    ap.add_argument("--out", default=str(ROOT / "mutants" / "sweep_results.json"))
    ap.add_argument("--offset", type=int, default=0, help="shift of the deterministic stride (to draw a different subset)")
    ap.add_argument("--recheck", default=None, help="earlier results file: re-run only the mutants that survived the test-suite "
                    "and were not detected then (test-suite run skipped)")
    a = ap.parse_args()
    props = [json.loads(l) for l in (ROOT / "properties.jsonl").read_text().splitlines() if l.strip()]
    want = set(a.props.split(",")) if a.props else None
    jobs = []
    by_file = {}
    for p in props:
        for rel in p["anchors"]["files"]:
            by_file.setdefault(rel, []).append(p["id"])
    for rel, pids in sorted(by_file.items()):
        if want and not (want & set(pids)):
            continue
        f = REPO / rel
        if not f.exists():
            continue
        cands = candidates(f)
        if not cands:
            continue
        stride = max(1, len(cands) // a.per_property)
        chosen = cands[a.offset % stride::stride][: a.per_property]
        jobs += [(pids, rel, *c) for c in chosen]
        print(rel.split("/")[-1], pids, "candidates", len(cands), "chosen", len(chosen), flush=True)
    if a.recheck:
        global SKIP_TESTS
        SKIP_TESTS = True
        old = json.loads(Path(a.recheck).read_text())
        extra = {"_formula_evaluator.py": ["C19"], "_formula_steps.py": ["C19"], "_battery_manager.py": ["C02", "C01"],
                 "_fallback_formula_metric_fetcher.py": ["C19"]}
        jobs = []
        for r in old:
            if r.get("tests_pass") and not r.get("detected"):
                pids = r["property"].split(",")
                pids += [x for x in extra.get(r["file"].split("/")[-1], []) if x not in pids]
                jobs.append((pids, r["file"], r["line"], r["col"], r["token"]))
        print("recheck of", len(jobs), "surviving mutants", flush=True)
    results = []
    t0 = time.time()
    with mp.Pool(a.jobs, initializer=_init, initargs=(SKIP_TESTS,)) as pool:
        for i, r in enumerate(pool.imap_unordered(run_one, jobs)):
            results.append(r)
            tag = "killed-by-tests" if not r.get("tests_pass") else ("DETECTED" if r.get("detected") else "MISSED")
            print(f"[{i + 1}/{len(jobs)}] {r['property']} {r['file'].split('/')[-1]}:{r['line']} {r['token']}->{r['replacement']} {tag} "
                  f"{r.get('clause') or r.get('error') or ''}", flush=True)
            Path(a.out).write_text(json.dumps(results, indent=1))
    surv = [r for r in results if r.get("tests_pass")]
    det = [r for r in surv if r.get("detected")]
    print(f"mutants={len(results)} survive_repo_tests={len(surv)} detected={len(det)} missed={len(surv) - len(det)} wall={time.time() - t0:.0f}s")


if __name__ == "__main__":
    main()
