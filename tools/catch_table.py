#!/usr/bin/env python3
"""Print a markdown table of the seeded changes and which checks caught them (from seeded/*/meta.json)."""
import json
from pathlib import Path

ROOT = Path(__file__).resolve().parent.parent
rows = []
for d in sorted((ROOT / "seeded").iterdir()):
    m = d / "meta.json"
    if not m.exists():
        continue
    j = json.loads(m.read_text())
    notes = (j.get("needs_to_manifest") or "").strip().splitlines()
    first = next((l.strip("# ").strip() for l in notes if l.strip()), "")
    caught = [c for c, r in j.get("checks", {}).items() if r.get("detected")]
    missed = [c for c, r in j.get("checks", {}).items() if not r.get("detected")]
    clause = ""
    for c in caught:
        fl = j["checks"][c].get("first_lines", [])
        for l in fl:
            if "clause=" in l:
                clause = l.split("clause=")[1].split(" ")[0]
                break
        if clause:
            break
    rows.append((j["name"], j["property"], "yes" if j.get("confirmed") else "NO", ", ".join(caught) or "-", ", ".join(missed) or "-", clause, first[:110]))
print("| seeded change | property | confirmed | caught by (quick) | not caught by | first failing clause | what it is |")
print("|---|---|---|---|---|---|---|")
for r in rows:
    print("| " + " | ".join(r) + " |")
