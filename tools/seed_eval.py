#!/usr/bin/env python3
"""Confirm a seeded property-breaking change and run checks against it.

usage: tools/seed_eval.py <seed_dir> <property_id> <name> [--checks C01,C15] [--tier quick]

<seed_dir> holds patch.diff, demo.py, notes.md (written by an independent sub-agent).
In a scratch git worktree of /repo (removed afterwards) this script confirms that
  1. the patch applies and the repository's test-suite still passes with it,
  2. the demo fails with the patch and passes without it,
then runs the named checks against the patched sources (VERIF_REPO_SRC) and stores
everything under /verif/seeded/<name>/ with a meta.json.
"""
import argparse
import json
import os
import shutil
import subprocess
import sys
import tempfile
import time
from pathlib import Path

ROOT = Path(__file__).resolve().parent.parent


def sh(cmd, cwd=None, env=None, timeout=3600):
    e = dict(os.environ)
    if env:
        e.update(env)
    r = subprocess.run(cmd, shell=True, cwd=cwd, env=e, capture_output=True, text=True, timeout=timeout)
    return r.returncode, (r.stdout + r.stderr)


def main():
    ap = argparse.ArgumentParser()
    ap.add_argument("seed_dir")
    ap.add_argument("property_id")
    ap.add_argument("name")
    ap.add_argument("--checks", default=None)
    ap.add_argument("--tier", default="quick")
    ap.add_argument("--skip-tests", action="store_true")
    a = ap.parse_args()
    seed = Path(a.seed_dir).resolve()
    checks = (a.checks or a.property_id).split(",")
    wt = tempfile.mkdtemp(prefix="verif_seed_eval.")
    os.rmdir(wt)
    meta = {"property": a.property_id, "name": a.name, "evaluated_at_repo_head": sh("git -C /repo rev-parse --short HEAD")[1].strip()}
    try:
        rc, out = sh(f"git -C /repo worktree add -q --detach {wt} HEAD")
        assert rc == 0, out
        env = {"PYTHONPATH": f"{wt}/src", "PYTHONDONTWRITEBYTECODE": "1"}
        rc, out = sh(f"git apply {seed / 'patch.diff'}", cwd=wt)
        meta["patch_applies"] = rc == 0
        if rc != 0:
            meta["error"] = out[-500:]
            print(json.dumps(meta, indent=1))
            return 2
        if not a.skip_tests:
            rc, out = sh("/venv/bin/python -m pytest tests -q -p no:cacheprovider -n 8 -x", cwd=wt, env=env)
            tail = [l for l in out.strip().splitlines() if "passed" in l or "failed" in l][-1:]
            meta["tests_with_patch"] = tail[0] if tail else out[-200:]
            meta["tests_pass_with_patch"] = rc == 0
        shutil.copy(seed / "demo.py", Path(wt) / "_demo.py")
        rc1, out1 = sh("/venv/bin/python _demo.py", cwd=wt, env=env, timeout=600)
        meta["demo_with_patch_exit"] = rc1
        meta["demo_with_patch_tail"] = out1.strip()[-300:]
        sh(f"git apply -R {seed / 'patch.diff'}", cwd=wt)
        rc0, out0 = sh("/venv/bin/python _demo.py", cwd=wt, env=env, timeout=600)
        meta["demo_without_patch_exit"] = rc0
        sh(f"git apply {seed / 'patch.diff'}", cwd=wt)
        meta["confirmed"] = bool(meta.get("tests_pass_with_patch", True) and rc1 != 0 and rc0 == 0)
        meta["checks"] = {}
        for c in checks:
            t0 = time.time()
            rc, out = sh(f"./check {c} {a.tier}", cwd=ROOT, env={"VERIF_REPO_SRC": f"{wt}/src", "VERIF_NO_EVIDENCE": "1"}, timeout=7200)
            lines = [l for l in out.splitlines() if l.startswith("VIOLATION") or "clause=" in l]
            meta["checks"][c] = {
                "tier": a.tier,
                "exit": rc,
                "detected": rc == 1 and any(l.startswith("VIOLATION") for l in lines),
                "first_lines": [l[:300] for l in lines[:4]],
                "wall_s": round(time.time() - t0, 1),
            }
    finally:
        sh(f"git -C /repo worktree remove --force {wt}")
        shutil.rmtree(wt, ignore_errors=True)
    dst = ROOT / "seeded" / a.name
    dst.mkdir(parents=True, exist_ok=True)
    for f in ("patch.diff", "demo.py", "notes.md"):
        if (seed / f).exists() and (seed / f).resolve() != (dst / f).resolve():
            shutil.copy(seed / f, dst / f)
    notes = (seed / "notes.md").read_text() if (seed / "notes.md").exists() else ""
    meta["needs_to_manifest"] = notes.strip()[:1500]
    meta["ran"] = [f"pytest tests -n 8 (with patch)", "demo.py with and without patch"] + [f"./check {c} {a.tier} (VERIF_REPO_SRC=patched copy)" for c in checks]
    old = json.loads((dst / "meta.json").read_text()) if (dst / "meta.json").exists() else {}
    if a.skip_tests:  # keep the earlier confirmation of the test-suite run
        for k in ("tests_with_patch", "tests_pass_with_patch"):
            if k in old:
                meta[k] = old[k]
        meta["confirmed"] = bool(meta.get("tests_pass_with_patch", False) and meta["demo_with_patch_exit"] != 0 and meta["demo_without_patch_exit"] == 0)
    (dst / "meta.json").write_text(json.dumps(meta, indent=1))
    print(json.dumps({k: v for k, v in meta.items() if k != "needs_to_manifest"}, indent=1))
    return 0


if __name__ == "__main__":
    sys.exit(main())
