#!/bin/bash
# tools/with_patch.sh <patch.diff> <command...>
# Runs <command> with VERIF_REPO_SRC pointing at a scratch copy of /repo/src that has
# the patch applied (never touches /repo).  The scratch copy is removed afterwards.
set -u
patch="$(realpath "$1")"; shift
d="$(mktemp -d /tmp/verif_mut.XXXXXX)"
trap 'rm -rf "$d"' EXIT
mkdir -p "$d/repo"
cp -r /repo/src "$d/repo/src"
( cd "$d/repo" && patch -p1 -s < "$patch" ) || { echo "PATCH-FAILED $patch"; exit 4; }
VERIF_REPO_SRC="$d/repo/src" PYTHONPATH="$d/repo/src${PYTHONPATH:+:$PYTHONPATH}" "$@"
