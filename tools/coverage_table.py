#!/usr/bin/env python3
"""Print the 'what each check explores' table rows from evidence/*.json (written by the last run of each check)."""
import json
from pathlib import Path

ROOT = Path(__file__).resolve().parent.parent
print("| check | tier | evaluations | distinct states | transitions | executions / traces | non-trivial | wall (s) |")
print("|---|---|---|---|---|---|---|---|")
for f in sorted((ROOT / "evidence").glob("C*.json")):
    d = json.loads(f.read_text())
    c = d["coverage"]
    g = lambda k: c.get(k, "")
    print(f"| {d['property_id']} | {d['tier']} | {g('evaluations'):,} | {g('states'):,} | {g('transitions'):,} | "
          f"{g('traces_validated_against_impl') or g('traces'):,} | {g('distinct_nontrivial')} | {d['wall_s']:.0f} |")
