#!/usr/bin/env python3
"""Regenerate /verif/MANIFEST.json from the table below (run after adding a check)."""
import json
from pathlib import Path

ROOT = Path(__file__).resolve().parent.parent

E1 = "stateless deviation-bounded schedule exploration of the real asyncio code on a virtual event loop"
E2 = "explicit-state breadth-first search over operation histories of the real object, canonical-state dedup, reference model compared in every state"
E3 = "bounded exhaustive enumeration of inputs/programs/configurations executed on the real code against a reference model"

# pid -> (technique, level text, level note, design ref)
CHECKS = {
    "C12": (
        E3 + " (component graphs)",
        "Every forest of component subtrees below the grid connection with up to 5-7 nodes (meters nested to any depth, battery "
        "inverters with 1-2 batteries, PV inverters, EV chargers, metered CHPs; with/without grid meter; several grid successors; "
        "dedicated, mixed and load-only meters), isomorphic duplicates removed, two id assignments, allow_fallback off and on, that the "
        "real graph validation accepts: the seven real formula generators' step lists are checked to be linear and evaluated on one "
        "unit of power per device / unmetered load and a combined vector against a physics model; fallback formulas equal their "
        "primary's reading; grid = consumer + producer + battery + EV.",
        "Steps evaluated with the real step classes on injected readings (no streaming); linearity makes the unit vectors decisive.",
        "DESIGN.md §3 C12",
    ),
    "C20": (
        E1,
        "The real DataSourcingActor over the fake microgrid API and a real ChannelRegistry: per plan (two metrics and two namespaces of "
        "one component with a duplicate and an unknown-component request; the same subscription with and without a start time; two components; one component per category) every "
        "interleaving of subscription requests and data messages at quiescence, plus injection between loop iterations and "
        "asyncio.wait done-set orders as bounded deviations; every stream subscribed before a message gets it exactly once with the "
        "metric's value and the message's timestamp, never duplicates or reordering, nothing for unknown components.",
        "Harness receivers attached to the registry channels up-front; messages racing with a stream's own subscription may or may not appear on it.",
        "DESIGN.md §3 C20",
    ),
    "C07": (
        E1 + " (exhaustive deviation sets)",
        "The real Resampler on the virtual loop with the wall clock bound to it: 2 periods x 4 align_to settings x 5 creation phases x "
        "series added before/after start x every set of up to 2 deviations (timer wake-up k late by 0.3-3.2 periods, sink call k slow "
        "by 0.5-2.5 periods) over a 10-period horizon; per-series timestamps exactly one period apart, aligned to align_to, first "
        "within two periods of creation, identical across series, none skipped or duplicated for good.",
        "resample() re-invoked when it returns/raises as the production caller does; lateness modelled as a late loop wake-up.",
        "DESIGN.md §3 C07",
    ),
    "C08": (
        E2,
        "Every operation history of length 5-7 over {receive a sample stamped 0.25-2.5 periods after the previous one (valid/None/NaN), "
        "tick} for 4-9 (max_data_age, initial_buffer_len) configurations through the real Resampler with a recording resampling "
        "function: at every tick the function gets exactly the valid samples with T-W < ts <= T among those retained by the "
        "buffer, in arrival order, never future or invalid samples; value None iff that set is empty; buffer capacity within its "
        "configured limits.",
        "Time-ordered input; capacity read from the helper's deque (one internal attribute); sequential delivery.",
        "DESIGN.md §3 C08",
    ),
    "C11": (
        E1 + " (exhaustive event histories at quiescence)",
        "The real PowerManagingActor on the virtual loop (proposals, subscriptions, results through its channels; bounds through a "
        "harness stub pool): every history to depth 4-5 over ~18 events (regular / operating-point proposals, bounds widen / shrink / "
        "shift / unavailable, Success / PartialFailure / Error, expiry) from warm and cold starts; every request sent equals the sum "
        "of the regular and operating-point targets in the latest reports and lies within the latest inclusion bounds.",
        "Events injected at quiescence (handlers cannot interleave: Broadcast.send never suspends); sent-only oracle as the property is worded.",
        "DESIGN.md §3 C11",
    ),
    "C06": (
        E1,
        "Weighted-sum formula over 2-3 streams whose values encode their timestamps; every interleaving of per-stream deliveries "
        "(order kept) and of the consumer starting the engine at quiescence, delivery between loop iterations and asyncio.wait "
        "done-set orders as bounded deviations; engines built with FormulaBuilder, the composition API and FormulaEngine3Phase; "
        "every output decodes to inputs of its own timestamp, timestamps consecutive from the latest first-timestamp, all common "
        "timestamps emitted.",
        "Receiver backlog stays within capacity; asyncio FIFO order kept; done-set order owned by a harness-side asyncio.wait wrapper.",
        "DESIGN.md §3 C06",
    ),
    "C19": (
        E1 + " (exhaustive fault sequences)",
        "Formula p + o with a lazily started fallback for p on the virtual loop: all 3^L primary sequences (valid/None/NaN) x 2^L "
        "fallback sequences x fallback-before/after-primary x primary closed at every position (L = 5-6): outside the precisely "
        "stated start-up window the output equals the primary if valid, else the fallback, else None; one output per timestamp in order.",
        "Harness fallback fetcher with the lazy-start contract of the SDK's; start-up window as stated in the evidence assumptions.",
        "DESIGN.md §3 C19",
    ),
    "C05": (
        E3 + " (programs), each program executed on the real streaming path under the virtual loop",
        "Every expression tree with up to 3 operator nodes (binary + - * / max min, unary consumption/production, constants, "
        "repeated leaves) built through the Python operator API, and every formula string with up to 4 operators in flat, "
        "singly and doubly parenthesised, redundant-parentheses and no-whitespace forms, run with one timestamp per combination "
        "of leaf values; emitted values compared with a reference evaluator / an independent precedence-climbing parser; plus every ordered "
        "pair (thorough: triple) of (formula string, metric) started through LogicalMeter.start_formula on one logical meter, "
        "every pair of the returned engines composed with each operator, all engines compared.",
        "Lock-step delivery; timestamps with an undefined reference value are left to C13; program size and value menu are the bounds.",
        "DESIGN.md §3 C05",
    ),
    "C13": (
        E3 + " (programs x missing-input patterns), executed on the real streaming path under the virtual loop",
        "The C05 programs (plus nested .build() compositions) under 3-4 nones_are_zeros configurations, with one timestamp per "
        "subset of inputs missing in each encoding (None, NaN, +inf, -inf) and all zero/sign vectors (zero divisors, both operand "
        "orders of min/max): None exactly when the reference says so, missing-as-zero equals 0, exactly one sample per timestamp; "
        "plus every ordered pair of (formula string, metric, nones_are_zeros) started through LogicalMeter.start_formula.",
        "Lock-step delivery; 'configured as zero' = nones_are_zeros on the stream's from_receiver or on the consuming build().",
        "DESIGN.md §3 C13",
    ),
    "C16": (
        E1 + "; " + E2,
        "Every history up to depth 4-5 over 17 events (battery/inverter messages healthy or faulty in one way, silences incl. "
        "exactly the maximum age, set-power outcomes) executed on the real BatteryStatusTracker with the wall clock bound to the "
        "virtual loop, from healthy, cold and post-failure starts, plus a BFS to depth 10-13 with canonical-state merging; the "
        "notification sequence must equal a seven-field reference model and a usable status implies fresh healthy data; the real "
        "ComponentPoolStatusTracker over two batteries and all ComponentPoolStatus queries.",
        "Fresh messages are stamped now (message age = reception age); reference model trusted; merging key includes the real tracker's fields.",
        "DESIGN.md §3 C16",
    ),
    "C10": (
        E1,
        "A scripted probe Actor (sequences of up to 3 _run invocations with await points, outcomes return / Exception / "
        "BaseException / hang, reactions to cancellation propagate / swallow / raise-in-cleanup; restart limits 0,1,2,unlimited; "
        "extra tasks) on the virtual loop with every placement of up to 3 start/cancel/stop/wait events at quiescent points and "
        "one placement between two loop iterations; trace invariants: re-invoked iff previous run raised an Exception without "
        "cancellation and below the limit, after the restart delay, never two runs at once, stop() returns, waits for and "
        "surfaces the errors of all tasks; run(a, b) returns exactly when both finished.",
        "Virtual clock; a concurrent start() racing with a pending stop() is outside the property; horizon 14 s.",
        "DESIGN.md §3 C10",
    ),
    "C09": (
        E2,
        "BFS over update histories (in/out of order, gaps, jumps beyond capacity, off-grid timestamps incl. half-period ties, "
        "valid/None/NaN) of the real OrderedRingBuffer with list and numpy containers, capacities 1-5; dict reference model "
        "compared in every state (content, rejection of old updates, count, gaps, oldest/newest, is_missing) and every index "
        "pair and every datetime pair on the half-slot grid evaluated as window queries in every canonical state.",
        "State dedup renames valid payload values (components never branch on them); off-grid endpoints accept either "
        "neighbouring slot boundary.",
        "DESIGN.md §3 C09",
    ),
    "C03": (
        E3 + "; " + E2,
        "E3: every combination of up to 3-4 proposals (priority ties, preferred power and bounds on/inside/outside every interval "
        "edge, inverted and incompatible bounds) over 8 system-bounds shapes through the real Matryoshka: target inside the "
        "inclusion bounds and zero or outside the exclusion zone. E2: BFS over propose/replace/expiry histories; in every state "
        "the target equals the one a fresh instance computes from the live set in every insertion order.",
        "Decided on the stated value menus and history depth; expiry observed via drop_old_proposals as the manager calls it.",
        "DESIGN.md §3 C03",
    ),
    "C04": (
        E3,
        "Every conflict-free three-actor proposal set of the menu compared with an interval-arithmetic reference model "
        "(closest admissible value to the lowest-priority preference inside system and higher-priority bounds minus the "
        "exclusion zone); get_status/adjust_to_bounds vs adoption of the own preference for 13 values per higher-priority "
        "configuration (also with the asker's own earlier bounds); empty proposal equivalent to none.",
        "Reference model trusted; ambiguous readings (equidistant candidates, preference 0 with a one-sided usable range) accepted both ways.",
        "DESIGN.md §3 C04",
    ),
    "C17": (
        E3,
        "Every bounds-distinct configuration of the C01 grid (shared inverters/batteries, 1-3 groups): the real "
        "PowerBoundsCalculator output vs the real BatteryManager's OutOfBounds decisions for every power on/just inside/just "
        "outside each advertised bound, adjust_power on and off; advertised inclusion = enforced; admitted power >= sum of group minimums.",
        "Status tracker stubbed; decided on the stated grid of bound values.",
        "DESIGN.md §3 C17",
    ),
    "C18": (
        E3,
        "Every combination of per-battery data (capacity incl. 0, SoC inside/outside limits, equal limits, each metric missing, "
        "battery absent) for 1-3 batteries and every working subset through the real SoCCalculator/CapacityCalculator against the "
        "documented formula, with monotonicity and capacity-scaling relations; NaN-to-missing conversion through the real metrics fetcher.",
        "Decided on the stated grid; zero total usable capacity accepts any SoC in [0,100].",
        "DESIGN.md §3 C18",
    ),
    "C01": (
        E3,
        "Exhaustive enumeration of a threshold-derived grid (1-3 battery groups, k batteries behind m inverters, SoC "
        "at/inside/beyond limits, exclusion/inclusion bounds, exponents, both signs, requests on and around every "
        "threshold) through the real BatteryDistributionAlgorithm: sum + remainder = request, signs, remainder "
        "magnitude; plus the real BatteryManager over a fake API: reported succeeded power = sum of commanded set-points.",
        "Decided on the stated grid only; client dataclasses and the harness reference computations of the "
        "advertised bounds are trusted.",
        "DESIGN.md §3 C01",
    ),
    "C02": (
        E3,
        "Same exhaustive grid as C01 with the bounds oracle: every inverter set-point is 0 or inside its inclusion "
        "bounds and outside its exclusion zone, every group total inside the aggregated battery bounds and outside "
        "the aggregated exclusion zone, groups without SoC headroom get exactly 0.",
        "Decided on the stated grid only; aggregation rules recomputed independently by the harness.",
        "DESIGN.md §3 C02",
    ),
    "C15": (
        E1,
        "All 5^n outcome vectors (ok / out-of-range / client error / unexpected exception / timeout) over the "
        "set_power calls of the real BatteryManager and PVManager on the virtual loop, over 6-8 battery topologies and "
        "5 PV sets x a request menu: succeeded + failed + excess = request, failed power = sum of failed set-points, "
        "component sets disjoint and complete, Success iff no call failed.",
        "ComponentPoolStatusTracker stubbed (all requested components working); fake API client; virtual clock.",
        "DESIGN.md §3 C15",
    ),
    "C14": (
        E1,
        "Every interleaving of request arrivals and distribute_power completions (ok/raise/instant) for up to 6 "
        "requests over two groups, injected at quiescence exhaustively and between loop iterations up to a "
        "deviation bound of 2, run against the real PowerDistributingActor; one-at-a-time, latest-wins, "
        "promptness and last-applied oracles on every execution.",
        "asyncio FIFO callback order, frequenz.channels and the harness probe manager are trusted; request count "
        "and deviation bound are the stated bounds.",
        "DESIGN.md §3 C14",
    ),
}

PENDING_REASON = "check not built yet in this session (planned, see DESIGN.md §3); not claimed until it exists and has been shown to fail on a seeded change"

ALL = [f"C{i:02d}" for i in range(1, 21)]


def main() -> None:
    checks = []
    for pid, (tech, text, note, ref) in sorted(CHECKS.items()):
        checks.append(
            {
                "property_id": pid,
                "quick_cmd": f"./check {pid} quick",
                "thorough_cmd": f"./check {pid} thorough",
                "evidence_file": f"/verif/evidence/{pid}.json",
                "replay_cmd_template": f"./check {pid} --replay {{path}}",
                "engine": "mc",
                "level_claimed": {"category": "model_checking", "text": text, "design_ref": ref},
                "level_note": note,
                "technique": tech,
            }
        )
    manifest = {
        "version": 1,
        "setup_cmd": "cd /verif && /venv/bin/python -c 'import mc.vloop, mc.core, mc.explore' && chmod +x check",
        "hooks": {
            "guard": "FREQUENZ_SDK_VERIF",
            "enable": "no source hooks exist; ./check exports FREQUENZ_SDK_VERIF=1 (read by nothing in /repo) and imports /repo/src live (editable install)",
            "baseline_off_cmd": "cd /repo && /venv/bin/python -m pytest -ra -q -p no:cacheprovider --timeout=900 --continue-on-collection-errors",
            "source_commits": [],
            "add_only": True,
        },
        "engines": [
            {
                "name": "mc",
                "path": "/verif/mc",
                "serves_properties": sorted(CHECKS),
                "kind_free_text": "hand-written explicit-state / stateless model checker for Python: virtual asyncio loop with "
                "deviation-bounded schedule exploration (E1), BFS over operation histories with canonical dedup (E2), "
                "bounded exhaustive enumeration against reference models (E3); all executed on the real SDK code",
            }
        ],
        "checks": checks,
        "not_applicable": [{"property_id": p, "reason": PENDING_REASON} for p in ALL if p not in CHECKS],
        "notes": "See DESIGN.md. known_findings.json lists genuine defects (fixed or recorded). seeded/ holds property-breaking changes used to demonstrate detection.",
    }
    (ROOT / "MANIFEST.json").write_text(json.dumps(manifest, indent=1) + "\n")
    print("wrote MANIFEST.json with", len(checks), "checks")


if __name__ == "__main__":
    main()
