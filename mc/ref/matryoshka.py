"""Reference model for the power manager's target computation (C03, C04).

Plain interval arithmetic.  A proposal is ``(priority, source, preferred, lower, upper)``
with ``None`` for "not given"; system bounds are ``(incl_lo, incl_hi, excl_lo, excl_hi)``.
"""
from __future__ import annotations

INF = float("inf")


def usable(lo, hi, el, eu):
    """[lo, hi] minus the open exclusion zone (el, eu) -> list of closed intervals."""
    if lo > hi:
        return []
    if el == 0 and eu == 0:
        return [(lo, hi)]
    res = []
    if lo <= el:
        res.append((lo, min(hi, el)))
    if hi >= eu:
        res.append((max(lo, eu), hi))
    return [(a, b) for a, b in res if a <= b]


def closest(pref, ivs):
    c = [min(max(pref, a), b) for a, b in ivs]
    d = min(abs(x - pref) for x in c)
    return {x for x in c if abs(x - pref) == d}


def order(props):
    return sorted(props, key=lambda p: (p[0], p[1]), reverse=True)


def ref_target(sysb, props):
    """Set of acceptable targets, or None when the proposal set is not conflict-free
    (the running intersection, after carving out the exclusion zone, becomes empty)."""
    slo, shi, el, eu = sysb
    lo, hi = slo, shi
    target = {0.0}
    for prio, src, pref, plo, phi in order(props):
        ivs = usable(lo, hi, el, eu)
        if not ivs:
            return None
        if pref is not None:
            if pref == 0 and lo <= 0 <= hi:
                # 0 ("off") is always an admissible value inside the inclusion interval.
                # When the usable set lies on one side of the exclusion zone only, the
                # wording leaves open whether 0 or the nearest usable power is meant.
                target = {0.0}
                if len(ivs) == 1 and not (ivs[0][0] <= 0 <= ivs[0][1]):
                    target |= closest(pref, ivs)
            else:
                target = closest(pref, ivs)
        nlo = max(lo, plo if plo is not None else -INF)
        nhi = min(hi, phi if phi is not None else INF)
        if nlo > nhi:
            return None
        if not usable(nlo, nhi, el, eu):
            return None
        lo, hi = nlo, nhi
    return target


def live_set(history, max_age):
    """history: list of events ('p', prio, src, pref, lo, hi) / ('t', dt).  Returns the
    proposals that still count: latest per (prio, src), age at the last drop <= max_age."""
    now = 0.0
    latest = {}
    for ev in history:
        if ev[0] == "p":
            _, prio, src, pref, lo, hi = ev[:6]
            # an optional 7th element: the proposal's creation time relative to its arrival (<= 0: stamped in the past)
            latest[(prio, src)] = (prio, src, pref, lo, hi, now + (ev[6] if len(ev) > 6 else 0.0))
        else:
            now += ev[1]
            latest = {k: v for k, v in latest.items() if now - v[5] <= max_age}
    return [v[:5] for v in latest.values()], [(v[:5], now - v[5]) for v in latest.values()]
