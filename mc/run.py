"""Command line entry: ``python -m mc.run <Cnn> quick|thorough`` / ``<Cnn> --replay <file>``."""
from __future__ import annotations

import importlib
import json
import logging
import os
import sys
import time
import traceback
import warnings


def _prepare() -> None:
    warnings.simplefilter("ignore")
    logging.disable(logging.CRITICAL)
    # frozen wall clock while the SDK is imported: class-level defaults such as
    # ``last_msg_timestamp = datetime.now()`` are evaluated at import time.
    import time_machine

    from .vloop import T0_WALL

    with time_machine.travel(T0_WALL, tick=False):
        import frequenz.sdk.microgrid  # noqa: F401  (must come first: circular imports)
        import frequenz.sdk.timeseries.formula_engine  # noqa: F401


def main(argv: list[str]) -> int:
    if len(argv) < 2:
        print(__doc__)
        return 2
    pid = argv[0].upper()
    t0 = time.perf_counter()
    try:
        _prepare()
        mod = importlib.import_module(f"mc.props.{pid.lower()}")
    except Exception:  # noqa: BLE001
        traceback.print_exc()
        print(f"INFRA-ERROR: cannot set up check {pid}", file=sys.stderr)
        return 3
    from . import core
    from .explore import Nondeterminism, default_workers

    if argv[1] == "--replay":
        data = json.loads(open(argv[2]).read())
        case = data["case"] if "case" in data else data
        from .explore import CRASH_CLAUSE, crash_detail, replay_crash, sdk_origin

        try:
            if "crash_in_run" in case:
                mod.run(case["crash_in_run"], 0, default_workers(case["crash_in_run"]))
                viols = []
            else:
                viols = replay_crash(case) if "crash_in_shard" in case else mod.replay(case)
        except Nondeterminism as e:
            print(f"INFRA-ERROR: replay diverged: {e}", file=sys.stderr)
            return 3
        except Exception as e:  # noqa: BLE001
            where = sdk_origin(e)
            if where is None:
                traceback.print_exc()
                print(f"INFRA-ERROR: replay of {argv[2]} crashed", file=sys.stderr)
                return 3
            viols = [(CRASH_CLAUSE, crash_detail(e, where))]
        if viols:
            for clause, detail in viols:
                print(f"VIOLATION property={pid} replay={argv[2]}")
                print(f"    clause={clause} detail={json.dumps(core.jsonable(detail))[:1500]}")
            return 1
        print(f"[{pid}] replay: case holds")
        return 0

    tier = argv[1]
    if tier not in ("quick", "thorough"):
        print("tier must be quick or thorough", file=sys.stderr)
        return 2
    seed = int(os.environ.get("VERIF_SEED", "0") or 0)
    try:
        acc, meta = mod.run(tier, seed, default_workers(tier))
    except Nondeterminism as e:
        traceback.print_exc()
        print(f"INFRA-ERROR: nondeterministic execution: {e}", file=sys.stderr)
        return 3
    except Exception as e:  # noqa: BLE001
        from .explore import CRASH_CLAUSE, crash_detail, sdk_origin

        where = sdk_origin(e)
        traceback.print_exc()
        if where is None:
            print(f"INFRA-ERROR: check {pid} crashed", file=sys.stderr)
            return 3
        # last resort (the per-case guards did not see it): the SDK raised into a harness call
        path = core.write_replay(pid, core.Violation(CRASH_CLAUSE, {"crash_in_run": tier}, crash_detail(e, where)))
        print(f"VIOLATION property={pid} replay={path}")
        print(f"    clause={CRASH_CLAUSE} detail={json.dumps(crash_detail(e, where))}")
        return 1
    return core.finish(
        pid,
        tier,
        seed,
        acc,
        t0,
        rule=meta["rule"],
        assumptions=meta["assumptions"],
        exhaustive=meta.get("exhaustive", True),
        bounds=meta.get("bounds", {}),
    )


if __name__ == "__main__":
    sys.exit(main(sys.argv[1:]))
