"""C18 — pool SoC and capacity are the documented aggregates of working batteries (E3).

Real ``SoCCalculator`` / ``CapacityCalculator`` on every combination of per-battery
data from a small grid, every missing-metric pattern and every working subset, against
the documented formula; plus a small E1 driver running the real
``LatestBatteryMetricsFetcher`` to establish that NaN metrics reach the calculators as
"missing".
"""
from __future__ import annotations

import itertools
import math
from datetime import timedelta

from frequenz.client.microgrid import ComponentMetricId as M

from frequenz.sdk.timeseries.battery_pool._component_metrics import ComponentMetricsData
from frequenz.sdk.timeseries.battery_pool._metric_calculator import CapacityCalculator, SoCCalculator

from .. import fakes
from ..core import Acc, Violation
from ..explore import pmap_acc

PID = "C18"

CAPS = [0.0, 1000.0, 3000.0]
SOCS = [0.0, 5.0, 20.0, 50.0, 80.0, 100.0]
LIMITS = [(20.0, 80.0), (0.0, 100.0), (50.0, 50.0), (49.5, 50.25)]  # the last: a window less than one point wide
PATTERNS_Q = [(), ("cap",), ("soc",), ("lo",), ("hi",), ("soc", "cap"), ("absent",)]
PATTERNS_T = PATTERNS_Q + [("lo", "hi"), ("soc", "lo"), ("cap", "hi"), ("cap", "soc", "lo", "hi")]


def Q3_FIRSTS():
    """Quick tier, three batteries: a small menu for the first one (the other two range over the reduced menu, so
    pools with two identical batteries and a different third one are included)."""
    return battery_states([()], caps=[1000.0, 3000.0], socs=[20.0, 50.0, 80.0], limits=[(20.0, 80.0), (0.0, 100.0)])


def battery_states(patterns, caps=CAPS, socs=SOCS, limits=LIMITS):
    out = []
    for pat in patterns:
        seen = set()
        for cap, soc, (lo, hi) in itertools.product(caps, socs, limits):
            d = {"cap": cap, "soc": soc, "lo": lo, "hi": hi}
            if "absent" in pat:
                d = None
            else:
                for k in pat:
                    d[k] = None
            key = None if d is None else tuple(sorted(d.items(), key=lambda kv: kv[0]))
            if key in seen:
                continue
            seen.add(key)
            out.append(d)
    return out


def to_metrics(states):
    md = {}
    for idx, d in enumerate(states):
        cid = 10 + idx
        if d is None:
            continue
        m = {}
        if d["cap"] is not None:
            m[M.CAPACITY] = d["cap"]
        if d["soc"] is not None:
            m[M.SOC] = d["soc"]
        if d["lo"] is not None:
            m[M.SOC_LOWER_BOUND] = d["lo"]
        if d["hi"] is not None:
            m[M.SOC_UPPER_BOUND] = d["hi"]
        md[cid] = ComponentMetricsData(cid, fakes.T0, m)
    return md


def reference(states, working):
    """(capacity or None, soc or None or 'any', total usable)"""
    cap_total = None
    used = 0.0
    usable_total = None
    for idx, d in enumerate(states):
        if (10 + idx) not in working or d is None:
            continue
        if d["cap"] is None or d["lo"] is None or d["hi"] is None:
            continue
        usable = d["cap"] * (d["hi"] - d["lo"]) / 100.0
        cap_total = (cap_total or 0.0) + usable
        if d["soc"] is None:
            continue
        if d["hi"] == d["lo"]:
            scaled = 0.0 if d["soc"] < d["lo"] else 100.0
        else:
            scaled = (d["soc"] - d["lo"]) / (d["hi"] - d["lo"]) * 100.0
        scaled = min(max(scaled, 0.0), 100.0)
        usable_total = (usable_total or 0.0) + usable
        used += usable * scaled
    if usable_total is None:
        soc = None
    elif usable_total <= 1e-12:
        soc = "any"
    else:
        soc = used / usable_total
    return cap_total, soc


def evaluate(states, working):
    ids = {10 + i for i in range(len(states))}
    md = to_metrics(states)
    soc = SoCCalculator(ids).calculate(md, set(working)).value
    cap = CapacityCalculator(ids).calculate(md, set(working)).value
    return (None if soc is None else soc.as_percent()), (None if cap is None else cap.as_watt_hours())


def oracle(states, working, soc, cap):
    v = []
    rcap, rsoc = reference(states, working)
    if (cap is None) != (rcap is None):
        v.append(("capacity_none_iff_no_battery_qualifies", {"capacity": cap, "reference": rcap}))
    elif cap is not None and not math.isclose(cap, rcap, rel_tol=1e-9, abs_tol=1e-9):
        v.append(("capacity_is_sum_of_usable_capacities", {"capacity": cap, "reference": rcap}))
    if (soc is None) != (rsoc is None):
        v.append(("soc_none_iff_no_battery_qualifies", {"soc": soc, "reference": rsoc}))
    elif soc is not None:
        if not (0.0 <= soc <= 100.0) or math.isnan(soc):
            v.append(("soc_within_0_100", {"soc": soc}))
        if rsoc != "any" and not math.isclose(soc, rsoc, rel_tol=1e-9, abs_tol=1e-9):
            v.append(("soc_is_usable_capacity_weighted_mean", {"soc": soc, "reference": rsoc}))
    return v


CLAUSES = ["capacity_none_iff_no_battery_qualifies", "capacity_is_sum_of_usable_capacities",
           "soc_none_iff_no_battery_qualifies", "soc_within_0_100", "soc_is_usable_capacity_weighted_mean",
           "soc_monotone_in_each_battery_soc", "soc_invariant_under_capacity_scaling",
           "capacity_scales_with_capacities", "nan_metric_reaches_calculator_as_missing"]


def case_json(states, working):
    return {"batteries": states, "working": sorted(working)}


def shard(args) -> Acc:
    tier, n, first_lo, first_hi = args
    acc = Acc()
    pats = PATTERNS_Q if tier == "quick" else PATTERNS_T
    if n <= 2:
        bs = battery_states(pats)
        rest = bs
    else:
        bs = battery_states(PATTERNS_Q) if tier != "quick" else Q3_FIRSTS()
        rest = battery_states([(), ("soc",), ("absent",)], caps=[0.0, 1000.0], socs=[20.0, 50.0, 95.0],
                              limits=[(20.0, 80.0), (50.0, 50.0)])
    firsts = bs[first_lo:first_hi]
    ids = [10 + i for i in range(n)]
    subsets = [set(c) for r in range(n + 1) for c in itertools.combinations(ids, r)]
    for b0 in firsts:
        for others in itertools.product(rest, repeat=n - 1):
            states = [b0, *others]
            for working in subsets:
                soc, cap = evaluate(states, working)
                acc.evaluations += 1
                acc.transitions += 1
                acc.traces += 1
                nt = len(working) >= 2 and any(s is None or None in s.values() for s in states)
                if nt:
                    acc.nontrivial += 1
                for c in CLAUSES[:5]:
                    acc.clauses[c] += 1
                viol = oracle(states, working, soc, cap)
                acc.outcome(f"n={n} soc={'None' if soc is None else ('0' if soc == 0 else '100' if soc == 100 else 'mid')} cap={'None' if cap is None else ('0' if cap == 0 else 'pos')}")
                # monotonicity: raise battery 0's SoC one grid step
                if b0 is not None and b0["soc"] is not None and b0["soc"] != SOCS[-1] and soc is not None:
                    up = dict(b0, soc=SOCS[SOCS.index(b0["soc"]) + 1])
                    soc2, _ = evaluate([up, *others], working)
                    acc.clauses["soc_monotone_in_each_battery_soc"] += 1
                    rsoc = reference(states, working)[1]
                    if rsoc != "any" and soc2 is not None and soc2 < soc - 1e-9:
                        viol.append(("soc_monotone_in_each_battery_soc", {"soc": soc, "after_raising_battery_0": soc2}))
                # scaling
                if soc is not None and acc.evaluations % 7 == 0:
                    for f in (0.5, 3.0, 1000.0):
                        sc = [None if s is None else dict(s, cap=None if s["cap"] is None else s["cap"] * f) for s in states]
                        soc3, cap3 = evaluate(sc, working)
                        acc.clauses["soc_invariant_under_capacity_scaling"] += 1
                        acc.clauses["capacity_scales_with_capacities"] += 1
                        rsoc = reference(states, working)[1]
                        if rsoc != "any" and (soc3 is None or not math.isclose(soc3, soc, rel_tol=1e-9, abs_tol=1e-9)):
                            viol.append(("soc_invariant_under_capacity_scaling", {"soc": soc, "factor": f, "scaled": soc3}))
                        if cap is not None and (cap3 is None or not math.isclose(cap3, cap * f, rel_tol=1e-9, abs_tol=1e-9)):
                            viol.append(("capacity_scales_with_capacities", {"capacity": cap, "factor": f, "scaled": cap3}))
                if acc.evaluations % 100000 == 1:
                    acc.sample({"case": case_json(states, working), "soc": soc, "capacity": cap})
                for clause, detail in viol:
                    acc.violation(Violation(clause, case_json(states, working), dict(detail, soc=soc, capacity=cap)))
    acc.states = acc.evaluations
    return acc


# -- E1: the real fetcher turns NaN metrics into missing ones -------------------


def fetcher_cases():
    fields = ["soc", "cap", "sl", "su"]
    for nan_fields in itertools.chain.from_iterable(itertools.combinations(fields, r) for r in range(len(fields) + 1)):
        yield nan_fields


def run_fetcher_case(nan_fields):
    from frequenz.client.microgrid import Component, ComponentCategory, Connection, InverterType

    from frequenz.sdk.timeseries.battery_pool._component_metric_fetcher import LatestBatteryMetricsFetcher

    from ..vloop import virtual_loop

    comps = {Component(1, ComponentCategory.GRID), Component(2, ComponentCategory.METER),
             Component(8, ComponentCategory.INVERTER, InverterType.BATTERY), Component(9, ComponentCategory.BATTERY)}
    conns = {Connection(1, 2), Connection(2, 8), Connection(8, 9)}
    kw = {"soc": 40.0, "cap": 1000.0, "sl": 20.0, "su": 80.0}
    for f in nan_fields:
        kw[f] = float("nan")  # a NaN object of its own, as decoded from the wire - not the math.nan singleton
    with virtual_loop(wall=True) as loop, fakes.fake_microgrid(comps, conns) as cm:
        metrics = [M.CAPACITY, M.SOC_LOWER_BOUND, M.SOC_UPPER_BOUND, M.SOC]
        t = loop.create_task(LatestBatteryMetricsFetcher.async_new(9, metrics))
        loop.settle()
        fetcher = t.result()
        cm.api_client.push(fakes.bat(9, ts=loop.wall_now(), **kw))
        t2 = loop.create_task(fetcher.fetch_next())
        loop.settle()
        data = t2.result()
    name = {"soc": M.SOC, "cap": M.CAPACITY, "sl": M.SOC_LOWER_BOUND, "su": M.SOC_UPPER_BOUND}
    v = []
    for f, mid in name.items():
        got = data.get(mid)
        if f in nan_fields and got is not None:
            v.append(("nan_metric_reaches_calculator_as_missing", {"metric": f, "got": got}))
        if f not in nan_fields and (got is None or got != kw[f]):
            v.append(("nan_metric_reaches_calculator_as_missing", {"metric": f, "got": got, "expected": kw[f]}))
    # and the calculators on the fetched data agree with the reference on 'missing'
    states = [{"cap": None if "cap" in nan_fields else kw["cap"], "soc": None if "soc" in nan_fields else kw["soc"],
               "lo": None if "sl" in nan_fields else kw["sl"], "hi": None if "su" in nan_fields else kw["su"]}]
    soc = SoCCalculator({9}).calculate({9: data}, {9}).value
    cap = CapacityCalculator({9}).calculate({9: data}, {9}).value
    md_ref = reference(states, {10})
    soc = None if soc is None else soc.as_percent()
    cap = None if cap is None else cap.as_watt_hours()
    if (soc is None) != (md_ref[1] is None) or (cap is None) != (md_ref[0] is None):
        v.append(("nan_metric_reaches_calculator_as_missing", {"soc": soc, "capacity": cap, "reference": md_ref}))
    return v


def fetcher_shard(_):
    acc = Acc()
    for nf in fetcher_cases():
        viol = run_fetcher_case(nf)
        acc.evaluations += 1
        acc.traces += 1
        acc.transitions += 2
        acc.clauses["nan_metric_reaches_calculator_as_missing"] += 1
        if nf:
            acc.nontrivial += 1
        for clause, detail in viol:
            acc.violation(Violation(clause, {"driver": "fetcher", "nan_fields": list(nf)}, detail))
    return acc


# -- E1: the streaming path (SendOnUpdate) --------------------------------------------

POOL_BATS = [9, 19, 29]
STEP = 0.6  # seconds of virtual time after every event (message age 0.6 / 1.2 / 1.8 s stays below the 2 s limit)
MSG_VARIANTS = {"lo": dict(soc=30.0, cap=1000.0, sl=20.0, su=80.0), "hi": dict(soc=90.0, cap=3000.0, sl=10.0, su=90.0),
                "nosoc": dict(soc=float("nan"), cap=2000.0, sl=20.0, su=80.0)}


def pool_events(tier):
    ev = [("msg", b, v) for b in POOL_BATS[: 2 if tier == "quick" else 3] for v in ("lo", "hi")] + [("msg", 9, "nosoc")]
    ids = POOL_BATS[: 2 if tier == "quick" else 3]
    subsets = [s for r in range(len(ids) + 1) for s in itertools.combinations(ids, r)]
    ev += [("working", s) for s in subsets]
    ev += [("wait", 3.0)]
    return ev


def run_pool_history(hist, tier):
    from frequenz.client.microgrid import Component, ComponentCategory, Connection, InverterType

    from frequenz.sdk.timeseries.battery_pool._methods import SendOnUpdate

    from ..vloop import virtual_loop

    ids = POOL_BATS[: 2 if tier == "quick" else 3]
    comps = {Component(1, ComponentCategory.GRID), Component(2, ComponentCategory.METER)}
    conns = {Connection(1, 2)}
    for b in ids:
        comps |= {Component(b - 1, ComponentCategory.INVERTER, InverterType.BATTERY), Component(b, ComponentCategory.BATTERY)}
        conns |= {Connection(2, b - 1), Connection(b - 1, b)}
    v = []
    with virtual_loop(wall=True) as loop, fakes.fake_microgrid(comps, conns) as cm:
        api = cm.api_client
        working = set(ids)
        sou = {"soc": SendOnUpdate(set(working), SoCCalculator(set(ids)), timedelta(seconds=0.2)),
               "cap": SendOnUpdate(set(working), CapacityCalculator(set(ids)), timedelta(seconds=0.2))}
        rx = {k: s.new_receiver() for k, s in sou.items()}
        loop.settle()
        latest = {"soc": "nothing-yet", "cap": "nothing-yet"}
        data = {b: None for b in ids}
        last_rx = {b: None for b in ids}

        def observe(after):
            for k, r in rx.items():
                while len(r):
                    x = r.consume().value
                    latest[k] = None if x is None else (x.as_percent() if k == "soc" else x.as_watt_hours())
            now = loop.time()
            states = []
            for b in ids:
                d = data[b]
                if d is None or last_rx[b] is None or now - last_rx[b] >= 2.0 - 1e-9:
                    states.append(None)
                else:
                    states.append({"cap": d["cap"], "soc": None if math.isnan(d["soc"]) else d["soc"], "lo": d["sl"], "hi": d["su"]})
            rcap, rsoc = reference(states, {10 + i for i, b in enumerate(ids) if b in working})
            for k, exp in (("cap", rcap), ("soc", rsoc)):
                got = latest[k]
                if got == "nothing-yet":
                    if exp is not None:
                        v.append(("pool_stream_reflects_current_working_set_and_data", {"metric": k, "after": list(map(str, after)), "got": "nothing emitted", "expected": exp}))
                    continue
                if exp == "any":
                    continue
                ok = (got is None and exp is None) or (got is not None and exp is not None and math.isclose(got, exp, rel_tol=1e-9, abs_tol=1e-9))
                if not ok:
                    v.append(("pool_stream_reflects_current_working_set_and_data",
                              {"metric": k, "after": list(map(str, after)), "got": got, "expected": exp, "working": sorted(working)}))

        loop.advance(2.0 + STEP)  # WAIT_FOR_COMPONENT_DATA_SEC
        for e in hist:
            if e[0] == "msg":
                _, b, var = e
                kw = MSG_VARIANTS[var]
                # battery 19's own clock lags 30 s behind local time (what counts is when a message is received)
                api.push(fakes.bat(b, ts=loop.wall_now() - timedelta(seconds=30 if b == 19 else 0), **kw))
                data[b] = kw
                last_rx[b] = loop.time()
            elif e[0] == "working":
                new = set(e[1])
                for b in working - new:
                    data[b] = None  # cached metrics of a battery that stops working are discarded
                working = new
                for s_ in sou.values():
                    s_.update_working_batteries(set(new))
            else:
                loop.advance(e[1])
            loop.advance(STEP)
            observe(e)
            if v:
                break
        for s_ in sou.values():
            loop.create_task(s_.stop())
        loop.settle()
    return v


# -- the BatteryPool object itself: aggregators are created lazily, on first use -------------------------------------

OBJ_EVENTS = [("status", (9, 19)), ("status", (9,)), ("status", (19,)), ("use", "cap"), ("use", "soc"), ("use", "bounds")]
OBJ_DATA = {9: dict(soc=50.0, cap=1000.0, sl=20.0, su=80.0, iu=1000.0, il=-1000.0), 19: dict(soc=35.0, cap=3000.0, sl=20.0, su=80.0, iu=500.0, il=-500.0)}


def run_pool_object_history(hist):
    """A real BatteryPool over a real BatteryPoolReferenceStore (fake microgrid API, harness-side status channel).
    Both batteries stream complete data all the time; events: the pool status names a working set, or a metric of the
    pool is used for the first time (which creates its aggregator).  After every event each metric in use must show the
    aggregate of the batteries that are working *now*."""
    from frequenz.channels import Broadcast
    from frequenz.client.microgrid import Component, ComponentCategory, Connection, InverterType

    from frequenz.sdk._internal._channels import ChannelRegistry
    from frequenz.sdk.microgrid._power_distributing._component_status import ComponentPoolStatus
    from frequenz.sdk.timeseries.battery_pool._battery_pool import BatteryPool
    from frequenz.sdk.timeseries.battery_pool._battery_pool_reference_store import BatteryPoolReferenceStore

    from ..vloop import virtual_loop

    ids = [9, 19]
    comps = {Component(1, ComponentCategory.GRID), Component(2, ComponentCategory.METER)}
    conns = {Connection(1, 2)}
    for b in ids:
        comps |= {Component(b - 1, ComponentCategory.INVERTER, InverterType.BATTERY), Component(b, ComponentCategory.BATTERY)}
        conns |= {Connection(2, b - 1), Connection(b - 1, b)}
    v = []
    with virtual_loop(wall=True) as loop, fakes.fake_microgrid(comps, conns) as cm:
        api = cm.api_client
        status = Broadcast(name="pool-status", resend_latest=True)
        keep = [Broadcast(name=n) for n in ("resampler-requests", "proposals", "bounds-subscriptions", "results")]
        store = BatteryPoolReferenceStore(
            channel_registry=ChannelRegistry(name="verif"), resampler_subscription_sender=keep[0].new_sender(),
            batteries_status_receiver=status.new_receiver(limit=1), power_manager_requests_sender=keep[1].new_sender(),
            power_manager_bounds_subscription_sender=keep[2].new_sender(), power_distribution_results_fetcher=keep[3],
            min_update_interval=timedelta(seconds=0.2), batteries_id=set(ids),
        )
        pool = BatteryPool(pool_ref_store=store, name="verif", priority=1, set_operating_point=False)
        status_sender = status.new_sender()
        loop.settle()
        working: set = set()
        rx = {}
        latest = {}

        def feed():
            for b in ids:
                d = OBJ_DATA[b]
                api.push(fakes.bat(b, ts=loop.wall_now(), soc=d["soc"], cap=d["cap"], sl=d["sl"], su=d["su"], il=d["il"], iu=d["iu"]))
                api.push(fakes.inv(b - 1, ts=loop.wall_now(), il=-1000.0, iu=1000.0))

        def observe(after):
            states = [{"cap": OBJ_DATA[b]["cap"], "soc": OBJ_DATA[b]["soc"], "lo": OBJ_DATA[b]["sl"], "hi": OBJ_DATA[b]["su"]} for b in ids]
            rcap, rsoc = reference(states, {10 + i for i, b in enumerate(ids) if b in working})
            exp = {"cap": rcap, "soc": rsoc, "bounds": (sum(OBJ_DATA[b]["il"] for b in working), sum(OBJ_DATA[b]["iu"] for b in working)) if working else None}
            for k, r in rx.items():
                while len(r):
                    x = r.consume()
                    if k == "bounds":
                        latest[k] = None if x is None or x.inclusion_bounds is None else (x.inclusion_bounds.lower.as_watts(), x.inclusion_bounds.upper.as_watts())
                    else:
                        x = x.value
                        latest[k] = None if x is None else (x.as_percent() if k == "soc" else x.as_watt_hours())
                got = latest.get(k, "nothing-yet")
                e = exp[k]
                if got == "nothing-yet":
                    ok = e is None
                elif k == "bounds":
                    ok = (got is None and e is None) or (got is not None and e is not None and all(math.isclose(a, b_, abs_tol=1e-9) for a, b_ in zip(got, e)))
                else:
                    ok = (got is None and e is None) or (got is not None and e is not None and math.isclose(got, e, rel_tol=1e-9, abs_tol=1e-9))
                if not ok:
                    v.append(("pool_metric_reflects_current_working_set", {"metric": k, "after": list(map(str, after)), "got": got, "expected": e,
                                                                          "working": sorted(working)}))

        feed()
        loop.advance(STEP)
        for e in hist:
            if e[0] == "status":
                working = set(e[1])
                loop.create_task(status_sender.send(ComponentPoolStatus(working=set(e[1]), uncertain=set())))
                loop.settle()
            else:
                k = e[1]
                if k not in rx:
                    fetcher = {"cap": lambda: pool.capacity, "soc": lambda: pool.soc, "bounds": lambda: pool._system_power_bounds}[k]()
                    rx[k] = fetcher.new_receiver()
                    loop.settle()
                    feed()
                    loop.advance(2.0 + 0.1)  # WAIT_FOR_COMPONENT_DATA_SEC
            feed()
            loop.advance(STEP)
            feed()
            loop.advance(STEP)
            observe(e)
            if v:
                break
        loop.create_task(store.stop())
        loop.settle()
    return v


def pool_object_shard(args) -> Acc:
    first, depth = args
    acc = Acc()
    for tail in itertools.product(OBJ_EVENTS, repeat=depth - 1):
        hist = [first, *tail]
        if not any(e[0] == "use" for e in hist):
            continue
        viol = run_pool_object_history(hist)
        acc.evaluations += 1
        acc.traces += 1
        acc.transitions += len(hist)
        acc.clauses["pool_metric_reflects_current_working_set"] += 1
        if any(e[0] == "status" for e in hist):
            acc.nontrivial += 1
        acc.state(repr(("pool-object", hist)))
        acc.outcome("pool-object")
        for clause, detail in viol:
            acc.violation(Violation(clause, {"driver": "pool-object", "history": [list(e) for e in hist]}, detail))
    return acc


def pool_shard(args) -> Acc:
    tier, first, depth = args
    acc = Acc()
    ev = pool_events(tier)
    for tail in itertools.product(ev, repeat=depth - 1):
        hist = [first, *tail]
        viol = run_pool_history(hist, tier)
        acc.evaluations += 1
        acc.traces += 1
        acc.transitions += len(hist)
        acc.clauses["pool_stream_reflects_current_working_set_and_data"] += 2 * len(hist)
        if any(e[0] == "working" for e in hist) and any(e[0] == "msg" for e in hist):
            acc.nontrivial += 1
        acc.state(repr(hist))
        if acc.evaluations % 2000 == 1:
            acc.sample({"driver": "pool-stream", "history": [list(map(str, e)) for e in hist]})
        for clause, detail in viol:
            acc.violation(Violation(clause, {"driver": "pool", "tier": tier, "history": [[e[0], list(e[1]) if isinstance(e[1], tuple) else e[1], *e[2:]] for e in hist]}, detail))
    acc.outcome("pool-stream")
    return acc


def _dispatch(args):
    if args[0] == "pool-object":
        return pool_object_shard(args[1:])
    if args[0] == "pool":
        return pool_shard(args[1:])
    return shard(args)


def run(tier: str, seed: int, workers: int):
    pats = PATTERNS_Q if tier == "quick" else PATTERNS_T
    nb = len(battery_states(pats))
    step = 8
    shards = []
    for n in [1, 2, 3]:
        nbn = nb if n <= 2 else (len(battery_states(PATTERNS_Q)) if tier != "quick" else len(Q3_FIRSTS()))
        for lo in range(0, nbn, step):
            shards.append((tier, n, lo, lo + step))
    if seed:
        import random

        random.Random(seed).shuffle(shards)
    pool_depth = 4 if tier == "quick" else 4
    for e in pool_events(tier):
        shards.append(("pool", tier, e, pool_depth))
    for e in OBJ_EVENTS:
        shards.append(("pool-object", e, 3 if tier == "quick" else 4))
    acc = pmap_acc(_dispatch, shards, workers)
    acc.merge(pmap_acc(fetcher_shard, [None], 1))
    meta = {
        "rule": "n batteries (1-3; in the quick tier the three-battery pools use reduced menus), each from capacity {0,1000,3000} x SoC {0,5,20,50,80,100} x limits "
        "{(20,80),(0,100),(50,50)} x a missing-metric pattern (or absent from the data), every working subset; each case "
        "generated once; non-trivial = >= 2 working batteries with at least one missing metric somewhere; plus 16 NaN "
        "patterns through the real LatestBatteryMetricsFetcher on the virtual loop; plus the streaming path: two real SendOnUpdate "
        "instances (SoC, capacity) over the fake API, every history of depth 4 over {battery message (2-3 batteries x 2-3 data variants), "
        "working-set update to every subset, 3 s silence}, the latest streamed value compared with the reference after every event; plus the "
        "BatteryPool object itself over a real reference store: every history of depth 3 (quick) / 4 over {pool status naming a working set, "
        "first use of capacity / soc / power bounds (which creates the aggregator lazily)} with both batteries streaming complete data",
        "assumptions": [
            "decided on the stated grid",
            "'lacks a required metric' is read per aggregate: capacity needs capacity and both SoC limits, SoC additionally the SoC",
            "with zero total usable capacity the documented quotient is undefined: any value in [0,100] is accepted",
        ],
        "exhaustive": True,
        "bounds": {"batteries": [1, 2, 3], "per_battery_states": nb},
    }
    return acc, meta


def replay(case: dict):
    if case.get("driver") == "fetcher":
        return run_fetcher_case(tuple(case["nan_fields"]))
    if case.get("driver") == "pool-object":
        return run_pool_object_history([tuple(tuple(x) if isinstance(x, list) else x for x in e) for e in case["history"]])
    if case.get("driver") == "pool":
        hist = [tuple(tuple(x) if isinstance(x, list) else x for x in e) for e in case["history"]]
        return run_pool_history(hist, case["tier"])
    states = case["batteries"]
    working = set(case["working"])
    soc, cap = evaluate(states, working)
    return [(c, dict(d, soc=soc, capacity=cap)) for c, d in oracle(states, working, soc, cap)]
