"""C01, last sentence: "the power reported as set is the power actually commanded".

Real ``BatteryManager`` over the fake API (all set_power calls succeed): the
``succeeded_power`` it reports must equal the sum of the values it passed to
``set_power``, and ``excess_power`` the undistributed remainder.
"""
from __future__ import annotations

from frequenz.sdk.microgrid._power_distributing.result import Success

from ..core import Acc, Violation
from ..explore import pmap_acc
from . import c01, dist, mgr

TOL = 1e-6


def check_case(groups, power, adjust_power=True):
    r = mgr.run_battery(groups, power, {}, adjust_power=adjust_power)
    v = []
    res = r["result"]
    if r["error"] or not isinstance(res, Success):
        v.append(("manager_returns_success_when_all_calls_succeed", {"error": r["error"], "result": repr(res)[:300]}))
        return r, v
    commanded = sum(w for _, w in r["calls"])
    tol = TOL * max(1.0, abs(power))
    if abs(res.succeeded_power.as_watts() - commanded) > tol:
        v.append(("reported_set_power_equals_commanded_power",
                  {"reported": res.succeeded_power.as_watts(), "commanded": commanded, "calls": r["calls"]}))
    if abs(res.succeeded_power.as_watts() + res.excess_power.as_watts() - power) > tol:
        v.append(("succeeded_plus_excess_equals_request",
                  {"succeeded": res.succeeded_power.as_watts(), "excess": res.excess_power.as_watts(), "request": power}))
    sgn = 1 if power > 0 else -1
    if any(w * sgn < -1e-9 for _, w in r["calls"]):
        v.append(("commanded_setpoint_sign", {"calls": r["calls"]}))
    return r, v


def shard(args) -> Acc:
    tier, n, lo, hi = args
    acc = Acc()
    firsts = c01.first_specs(tier, n)[lo:hi]
    others = c01.other_specs(tier, 2)[:6] if n == 2 else [None]
    for g0 in firsts:
        for g1 in others:
            groups = [g0] if g1 is None else [g0, g1]
            for sign in (1, -1):
                menu = dist.request_menu(groups, 1.0, sign, boundary=True)
                rs_ = [dist.ref_group(g, sign) for g in groups]
                adv_incl = sum(r_["adv_incl"] for r_ in rs_)
                for p, adjust in [(p, True) for p in menu] + [(p, False) for p in menu if p <= adv_incl + 1e-9]:
                    # adjust_power=False ("strict"): only requests the advertised bounds admit are accepted at all
                    power = sign * p
                    r, viol = check_case(groups, power, adjust)
                    acc.evaluations += 1
                    acc.traces += 1
                    acc.transitions += len(r["calls"]) + 1
                    acc.states += 1
                    if dist.nontrivial(groups, 1.0, power) or any(len(g.invs) > 1 for g in groups):
                        acc.nontrivial += 1
                    for c in ("reported_set_power_equals_commanded_power", "succeeded_plus_excess_equals_request"):
                        acc.clauses[c] += 1
                    acc.outcome(f"manager n={len(groups)} calls={len(r['calls'])} {'excess' if r['result'] is not None and abs(r['result'].excess_power.as_watts()) > 1e-9 else 'full'}")
                    for clause, detail in viol:
                        case = dict(dist.case_json(groups, 1.0, power), driver="manager", adjust_power=adjust)
                        acc.violation(Violation(clause, case, detail, dist.input_classes(groups, 1.0, power)))
    return acc


def run(tier, seed, workers):
    shards = []
    step = 16
    n1 = len(c01.first_specs(tier, 1))
    for lo in range(0, n1, step):
        shards.append((tier, 1, lo, lo + step))
    if tier == "thorough":
        for lo in range(0, n1, step):
            shards.append((tier, 2, lo, lo + step))
    else:
        for lo in range(0, 64, step):
            shards.append((tier, 2, lo, lo + step))
    return pmap_acc(shard, shards, workers)


def replay(case):
    groups, _, power = dist.case_from_json(case)
    _, viol = check_case(groups, power, case.get("adjust_power", True))
    return viol
