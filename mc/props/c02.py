"""C02 — no inverter or battery group is commanded outside its power bounds (E3).

Same enumeration as C01 (``c01.iter_cases``), different oracle.
"""
from __future__ import annotations

from ..explore import pmap_acc
from . import c01, dist

PID = "C02"
TOL = 1e-6


def oracle_c02(groups, exponent, power, pairs, res):
    v = []
    sgn = 1 if power > 0 else -1
    for g, (bat, invs) in zip(groups, pairs):
        r = dist.ref_group(g, sgn)
        s = 0.0
        for spec, i in zip(g.invs, invs):
            x = res.distribution.get(i.component_id, 0.0)
            s += x
            if abs(x) <= 1e-9:
                continue
            if not (i.active_power_inclusion_lower_bound - TOL <= x <= i.active_power_inclusion_upper_bound + TOL):
                v.append(("inverter_within_inclusion", {"inverter": i.component_id, "value": x,
                                                        "bounds": [i.active_power_inclusion_lower_bound, i.active_power_inclusion_upper_bound]}))
            if i.active_power_exclusion_lower_bound + TOL < x < i.active_power_exclusion_upper_bound - TOL:
                v.append(("inverter_outside_exclusion", {"inverter": i.component_id, "value": x,
                                                         "zone": [i.active_power_exclusion_lower_bound, i.active_power_exclusion_upper_bound]}))
        if abs(s) <= 1e-9:
            continue
        pb = bat.power_bounds
        # documented aggregation, recomputed by the reference (sum of inclusion bounds,
        # largest exclusion bound x number of batteries)
        incl_lo = -sum(b.incl * b.lower_scale for b in g.bats)
        incl_hi = sum(b.incl for b in g.bats)
        excl_hi = max(b.excl for b in g.bats) * len(g.bats)
        excl_lo = -max(b.excl * b.lower_scale for b in g.bats) * len(g.bats)
        if not (incl_lo - TOL <= s <= incl_hi + TOL):
            v.append(("group_within_inclusion", {"group": bat.component_id, "sum": s, "bounds": [incl_lo, incl_hi]}))
        if excl_lo + TOL < s < excl_hi - TOL:
            v.append(("group_outside_exclusion", {"group": bat.component_id, "sum": s, "zone": [excl_lo, excl_hi]}))
        if r["headroom"] <= 0.0:
            v.append(("no_headroom_group_gets_zero", {"group": bat.component_id, "sum": s, "soc": bat.soc,
                                                       "limits": [bat.soc_lower_bound, bat.soc_upper_bound]}))
    return v


CLAUSES = ["inverter_within_inclusion", "inverter_outside_exclusion", "group_within_inclusion",
           "group_outside_exclusion", "no_headroom_group_gets_zero"]

_shard = c01.make_shard_fn(oracle_c02, CLAUSES)


def run_c02_shard(shard):
    return _shard(shard)


def run(tier: str, seed: int, workers: int):
    shards = [s for s in c01.configs(tier) if s[2] < len(c01.first_specs(tier, s[1]))]
    if seed:
        import random

        random.Random(seed).shuffle(shards)
    acc = pmap_acc(run_c02_shard, shards, workers)
    from . import c02_manager

    acc.merge(c02_manager.run(tier, seed, workers))
    meta = {
        "rule": c01.RULE + "; requests of exactly the advertised exclusion bound and exactly the inclusion bound are included; "
        "plus, through the real BatteryManager over the fake API, every history of 3 (quick) / 4 (thorough) events + a final request "
        "over {battery g reports tight / full / excl / normal data, inverter g reports tight / excl / normal data, request 900 / -900 / 250 W} "
        "on two 1x1 groups: the set_power calls of every admitted request are checked against the data in force at that moment",
        "assumptions": c01.ASSUMPTIONS,
        "exhaustive": True,
        "bounds": {"groups": dist.menus(tier)["ngroups"], "menus": dist.menus(tier)},
    }
    return acc, meta


def replay(case: dict):
    if case.get("driver") == "manager-history":
        from . import c02_manager

        return c02_manager.replay(case)
    groups, exponent, power = dist.case_from_json(case)
    pairs, res = dist.evaluate(groups, exponent, power)
    out = oracle_c02(groups, exponent, power, pairs, res)
    return [(c, dict(d, distribution=dict(res.distribution), remainder=res.remaining_power)) for c, d in out]
