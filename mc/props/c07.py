"""C07 — resampled timeline is aligned, gap-free and shared by all series (E1).

The real ``Resampler`` runs on the virtual loop with the wall clock bound to it; its
timer lateness, the latency of the sinks and the moment a second / third series is
added are environment decisions.  All configurations (period, align_to, creation phase)
x all deviation sets up to the bound are executed.
"""
from __future__ import annotations

import asyncio
import itertools
from datetime import datetime, timedelta, timezone

from frequenz.channels import Broadcast

from frequenz.sdk.timeseries._resampling import Resampler, ResamplerConfig

from ..core import Acc, Violation
from ..explore import pmap_acc
from ..vloop import T0_WALL, virtual_loop

PID = "C07"
EPOCH = datetime(1970, 1, 1, tzinfo=timezone.utc)
N_TICKS = 10  # horizon in periods


DST_START = datetime(2024, 10, 27, 0, 59, 56, tzinfo=timezone.utc)  # Europe/Berlin leaves DST at 01:00:00 UTC


def base_wall(kind):
    """Wall-clock origin of a run: a few seconds before a DST transition of the align_to's zone for kind "dst"."""
    return DST_START if kind == "dst" else T0_WALL


def mk_align(kind, period):
    if kind == "dst":
        from zoneinfo import ZoneInfo

        return datetime(2024, 3, 1, 0, 0, 0, tzinfo=ZoneInfo("Europe/Berlin"))
    if kind == "ancient":
        return datetime(1601, 1, 1, tzinfo=timezone.utc)  # more than 2**53 microseconds before the run
    if kind == "tz":
        # a time-zone aware align_to in a zone whose UTC offset is not a multiple of the period
        tz = timezone(timedelta(hours=5, minutes=30, seconds=0.25 * period))
        return datetime(2000, 1, 1, 12, 0, 0, tzinfo=tz)
    return {"none": None, "epoch": EPOCH, "epoch+quarter": EPOCH + timedelta(seconds=0.25 * period),
            "future": T0_WALL + timedelta(days=1)}[kind]


def F_push(sender, sample):
    from . import formula as F

    F.push(sender, sample)


def run_case(period, align_kind, phase_f, lates, sink_lat, add_at):
    """lates: {tick index: lateness in periods}; sink_lat: {(series, k-th sample): latency in periods};
    add_at: {series name: tick index after which it is added (0 = before resample() starts)}."""
    P = timedelta(seconds=period)
    phase = phase_f * period
    wall0 = base_wall(align_kind) + timedelta(seconds=phase)
    align = mk_align(align_kind, period)
    with virtual_loop(wall=True, wall0=wall0) as loop:
        cfg = ResamplerConfig(resampling_period=P, align_to=align)
        r = Resampler(cfg)
        created = loop.wall_now()
        names = sorted(add_at)
        out = {n: [] for n in names}
        src = Broadcast(name="src")
        keep = []

        inflight = [0]

        def mk(name):
            async def sink(s):
                lat = sink_lat.get((name, len(out[name])))
                if lat:
                    inflight[0] += 1
                    try:
                        await asyncio.sleep(lat * period)
                    finally:
                        inflight[0] -= 1
                out[name].append(s.timestamp.astimezone(timezone.utc))  # instants, not wall-clock fields

            return sink

        def add(name):
            rx = src.new_receiver()
            keep.append(rx)
            r.add_timeseries(name, rx, mk(name))

        for n in names:
            if add_at[n] == 0:
                add(n)
        excs = []
        feed = src.new_sender()

        def feed_sample():
            # a source sparser than the resampling period: one valid sample every third tick, so that two
            # consecutive ticks see the same non-empty set of relevant samples
            from frequenz.quantities import Quantity
            from frequenz.sdk.timeseries import Sample

            F_push(feed, Sample(loop.wall_now(), Quantity(1.0)))

        async def forever():
            # the production caller re-invokes resample() whenever it returns or raises
            while True:
                try:
                    await r.resample()
                except asyncio.CancelledError:
                    raise
                except Exception as e:  # noqa: BLE001
                    excs.append(type(e).__name__)

        task = loop.create_task(forever())
        loop.settle()
        k = 0
        H = N_TICKS * period
        guard = 0
        while True:
            t = loop.next_timer()
            if t is None or t > H + 1e-9:
                break
            late = lates.get(k, 0.0) * period
            if k % 3 == 0:
                feed_sample()
                loop.settle()
            k += 1
            loop.set_time(max(loop.time(), min(t + late, H)))
            loop.settle()
            for n in names:
                if add_at[n] == k:
                    add(n)
            guard += 1
            if guard > 400:
                break
        loop.set_time(H)
        loop.settle()
        # let a sink call that is still sleeping at the horizon finish, so that the injected delay is
        # absorbed before the timeline is judged
        limit = H + 8 * period
        while inflight[0] > 0 and loop.time() < limit:
            nt = loop.next_timer()
            if nt is None:
                break
            loop.set_time(min(max(nt, loop.time()), limit))
            loop.settle()
        end_now = loop.wall_now()
        task.cancel()
        loop.settle()
        loop.create_task(r.stop())
        loop.settle()
    return created, out, end_now, excs, align, P


def oracle(created, out, end_now, align, P, add_at):
    v = []
    names = sorted(out)
    base = min(names, key=lambda n: (add_at[n], n))
    late_base = add_at[base] > 0  # no series at all until some ticks have passed
    a = out[base]
    if not a:
        return [("first_series_produces_samples", {})]
    for name, ts in out.items():
        for i in range(1, len(ts)):
            if ts[i] - ts[i - 1] != P:
                v.append(("consecutive_timestamps_one_period_apart", {"series": name, "index": i, "step_s": (ts[i] - ts[i - 1]).total_seconds()}))
                return v
    first = a[0]
    if align is not None and (first - align) % P != timedelta(0):
        v.append(("timestamps_aligned_to_align_to", {"first": first.isoformat(), "align_to": align.isoformat()}))
    if align is None and not late_base and first != created + P:
        v.append(("first_timestamp_one_period_after_creation_when_unaligned", {"first": first.isoformat(), "created": created.isoformat()}))
    if align is None and late_base and (first - created) % P != timedelta(0):
        # the grid of an unaligned resampler is anchored at its creation, whenever the first series is added
        v.append(("timestamps_on_the_grid_anchored_at_creation_when_unaligned", {"first": first.isoformat(), "created": created.isoformat()}))
    if not late_base and not (created <= first <= created + 2 * P):
        v.append(("first_timestamp_within_two_periods_of_creation", {"offset_s": (first - created).total_seconds()}))
    for n in names:
        b = out[n]
        if n == base or not b:
            continue
        if b[0] not in a or b != a[a.index(b[0]):a.index(b[0]) + len(b)]:
            v.append(("series_resampled_together_share_timestamps", {"series": n, "first": b[0].isoformat(), "count": len(b)}))
        elif a.index(b[0]) + len(b) != len(a):
            v.append(("series_resampled_together_share_timestamps", {"series": n, "missing_tail": len(a) - a.index(b[0]) - len(b)}))
    exp = int((end_now - first) / P) + 1
    if len(a) != exp:
        v.append(("no_tick_skipped_or_duplicated_for_good", {"emitted": len(a), "grid_points_up_to_now": exp}))
    return v


def run_actor_case(period, align_kind, phase_f, lates, sub_at):
    """The real ComponentMetricsResamplingActor: subscriptions arrive through its request channel
    (sub_at: {component id: tick index after which the request is sent, 0 = before the first tick}),
    resampled samples are read from the registry channels it publishes on."""
    from frequenz.client.microgrid import ComponentMetricId
    from frequenz.quantities import Quantity

    from frequenz.sdk._internal._channels import ChannelRegistry
    from frequenz.sdk.microgrid._data_sourcing import ComponentMetricRequest
    from frequenz.sdk.microgrid._resampling import ComponentMetricsResamplingActor
    from frequenz.sdk.timeseries import Sample

    P = timedelta(seconds=period)
    wall0 = base_wall(align_kind) + timedelta(seconds=phase_f * period)
    align = mk_align(align_kind, period)
    with virtual_loop(wall=True, wall0=wall0) as loop:
        reg = ChannelRegistry(name="verif")
        ds_req = Broadcast(name="data-sourcing-requests")
        ds_rx = ds_req.new_receiver()
        rs_req = Broadcast(name="resampling-requests")
        actor = ComponentMetricsResamplingActor(channel_registry=reg, data_sourcing_request_sender=ds_req.new_sender(),
                                                resampling_request_receiver=rs_req.new_receiver(),
                                                config=ResamplerConfig(resampling_period=P, align_to=align))
        created = loop.wall_now()
        actor.start()
        loop.settle()
        rs = rs_req.new_sender()
        out = {}
        rxs = {}

        def subscribe(cid):
            r = ComponentMetricRequest("verif", cid, ComponentMetricId.ACTIVE_POWER, None)
            rxs[cid] = reg.get_or_create(Sample[Quantity], r.get_channel_name()).new_receiver(limit=200)
            out[cid] = []
            loop.create_task(rs.send(r))

        def drain():
            for cid, rx in rxs.items():
                while len(rx):
                    out[cid].append(rx.consume().timestamp.astimezone(timezone.utc))

        for cid, k in sub_at.items():
            if k == 0:
                subscribe(cid)
        loop.settle()
        k = 0
        H = N_TICKS * period
        guard = 0
        while True:
            t = loop.next_timer()
            if t is None or t > H + 1e-9:
                break
            late = lates.get(k, 0.0) * period
            k += 1
            loop.set_time(max(loop.time(), min(t + late, H)))
            loop.settle()
            drain()
            for cid, kk in sub_at.items():
                if kk == k:
                    subscribe(cid)
            loop.settle()
            guard += 1
            if guard > 400:
                break
        loop.set_time(H)
        loop.settle()
        drain()
        end_now = loop.wall_now()
        n_ds = 0
        while len(ds_rx):
            ds_rx.consume()
            n_ds += 1
        loop.create_task(actor.stop())
        loop.settle()
    return created, {f"c{cid}": v for cid, v in out.items()}, end_now, n_ds, align, P


def run_moving_window_case(period, align_kind, phase_f):
    """The resampler a MovingWindow creates from ``resampler_config`` (the window's own ``align_to`` is left at its
    default): what its sink receives is observed by wrapping ``Resampler.add_timeseries`` from the harness."""
    from frequenz.sdk.timeseries import MovingWindow

    P = timedelta(seconds=period)
    wall0 = base_wall(align_kind) + timedelta(seconds=phase_f * period)
    align = mk_align(align_kind, period)
    out = {"mw": []}
    orig = Resampler.add_timeseries

    def spy(self, name, source, sink):
        async def sink2(sample):
            out["mw"].append(sample.timestamp.astimezone(timezone.utc))
            await sink(sample)

        return orig(self, name, source, sink2)

    Resampler.add_timeseries = spy
    try:
        with virtual_loop(wall=True, wall0=wall0) as loop:
            src = Broadcast(name="mw-src")
            mw = MovingWindow(size=5 * P, resampled_data_recv=src.new_receiver(), input_sampling_period=P / 2,
                              resampler_config=ResamplerConfig(resampling_period=P, align_to=align))
            created = loop.wall_now()
            mw.start()
            loop.settle()
            H = N_TICKS * period
            guard = 0
            while guard < 100:
                guard += 1
                t = loop.next_timer()
                if t is None or t > H + 1e-9:
                    break
                loop.set_time(max(loop.time(), t))
                loop.settle()
            loop.set_time(H)
            loop.settle()
            end_now = loop.wall_now()
            loop.create_task(mw.stop())
            loop.settle()
    finally:
        Resampler.add_timeseries = orig
    return created, out, end_now, align, P


def mw_shard(args) -> Acc:
    tier, period, align_kind, phase_f = args
    acc = Acc()
    created, out, end_now, align, P = run_moving_window_case(period, align_kind, phase_f)
    viol = oracle(created, out, end_now, align, P, {"mw": 0})
    acc.evaluations += 1
    acc.traces += 1
    acc.transitions += len(out["mw"])
    for c in CLAUSES:
        acc.clauses[c] += 1
    acc.nontrivial += 1
    acc.state(repr(("moving-window", period, align_kind, phase_f)))
    acc.outcome(f"moving-window ticks={len(out['mw'])}")
    for clause, detail in viol:
        acc.violation(Violation(clause, {"driver": "moving-window", "period": period, "align": align_kind, "phase": phase_f}, detail))
    return acc


CLAUSES = ["timestamps_on_the_grid_anchored_at_creation_when_unaligned", "consecutive_timestamps_one_period_apart", "timestamps_aligned_to_align_to", "first_timestamp_within_two_periods_of_creation",
           "series_resampled_together_share_timestamps", "no_tick_skipped_or_duplicated_for_good",
           "first_timestamp_one_period_after_creation_when_unaligned"]

LATE_MENU = [0.3, 1.0, 1.5, 3.2]
SINK_MENU = [0.5, 1.0, 2.5]


def deviation_sets(tier):
    """All deviation sets with at most 1 (quick) / 2 (thorough) deviations among: timer k late by l, sample k of series a slow by l."""
    singles = [("late", k, l) for k in range(6) for l in LATE_MENU] + [("sink", k, l) for k in range(4) for l in SINK_MENU]
    sets = [()] + [(d,) for d in singles]
    if tier != "quick":
        sets += [c for c in itertools.combinations(singles, 2) if not (c[0][0] == c[1][0] and c[0][1] == c[1][1])]
    else:
        sets += [(("late", k1, l1), ("late", k2, l2)) for (k1, k2) in itertools.combinations(range(4), 2)
                 for l1, l2 in itertools.product((1.0, 3.2), (1.0, 1.5))]
        sets += [(("late", k1, 1.5), ("sink", k2, 2.5)) for k1 in range(3) for k2 in range(3)]
    return sets


def shard(args) -> Acc:
    tier, period, align_kind, phase_f = args
    acc = Acc()
    add_variants = [{"a": 0}, {"a": 0, "b": 0}, {"a": 0, "b": 3}, {"a": 0, "b": 2, "c": 4}, {"a": 2, "b": 2}, {"a": 1, "b": 3}] \
        if tier != "quick" else [{"a": 0, "b": 0}, {"a": 0, "b": 3}, {"a": 0, "b": 2, "c": 4}, {"a": 2, "b": 2}]
    many = {f"s{i:02d}": (0 if i < 12 else 2) for i in range(20)}  # 20 series, 8 of them added after tick 2
    for devs in deviation_sets(tier):
        lates = {k: l for kind, k, l in devs if kind == "late"}
        sinks = {("a", k): l for kind, k, l in devs if kind == "sink"}
        for add_at in add_variants + ([many] if len(devs) == 0 else []):
            created, out, end_now, excs, align, P = run_case(period, align_kind, phase_f, lates, sinks, add_at)
            viol = oracle(created, out, end_now, align, P, add_at)
            acc.evaluations += 1
            acc.traces += 1
            acc.transitions += sum(len(x) for x in out.values())
            for c in CLAUSES:
                acc.clauses[c] += 1
            if devs:
                acc.nontrivial += 1
            for e in excs:
                acc.counters[f"resample_raised_{e}"] += 1
            acc.outcome(f"ticks={len(out[sorted(out)[0]])} devs={len(devs)} series={len(add_at)}")
            acc.state(repr((period, align_kind, phase_f, devs, sorted(add_at.items()))))
            case = {"period": period, "align": align_kind, "phase": phase_f, "deviations": [list(d) for d in devs], "add_at": add_at}
            if acc.evaluations % 600 == 1:
                acc.sample({**case, "ticks_emitted": {n: len(x) for n, x in out.items()}, "first": out["a"][0].isoformat() if out["a"] else None})
            for clause, detail in viol:
                acc.violation(Violation(clause, case, detail))
    return acc


def actor_shard(args) -> Acc:
    tier, period, align_kind, phase_f = args
    acc = Acc()
    late_sets = [()] + [((k, l),) for k in range(5) for l in (1.0, 1.5, 3.2)]
    if tier != "quick":
        late_sets += [((k1, 1.5), (k2, 3.2)) for k1 in range(4) for k2 in range(k1 + 1, 5)]
    for lates in late_sets:
        for sub_at in ({1: 0, 2: 0}, {1: 0, 2: 3}, {1: 0, 2: 2, 3: 5}):
            created, out, end_now, n_ds, align, P = run_actor_case(period, align_kind, phase_f, dict(lates), sub_at)
            add_at = {f"c{cid}": k for cid, k in sub_at.items()}
            # oracle() keys the base series by add_at == 0; rename so the first subscription is the base
            viol = oracle(created, out, end_now, align, P, add_at)
            if n_ds != len(sub_at):
                viol.append(("one_data_sourcing_request_per_subscription", {"requests": n_ds, "subscriptions": len(sub_at)}))
            acc.evaluations += 1
            acc.traces += 1
            acc.transitions += sum(len(x) for x in out.values())
            for c in CLAUSES:
                acc.clauses[c] += 1
            if lates:
                acc.nontrivial += 1
            acc.outcome(f"actor ticks={len(out['c1'])} lates={len(lates)} series={len(sub_at)}")
            acc.state(repr(("actor", period, align_kind, phase_f, lates, sorted(sub_at.items()))))
            case = {"driver": "actor", "period": period, "align": align_kind, "phase": phase_f, "lates": [list(x) for x in lates],
                    "sub_at": {str(k): v for k, v in sub_at.items()}}
            for clause, detail in viol:
                acc.violation(Violation(clause, case, detail))
    return acc


def _dispatch(args):
    if args[0] == "mw":
        return mw_shard(args[1:])
    return actor_shard(args[1:]) if args[0] == "actor" else shard(args)


def run(tier: str, seed: int, workers: int):
    shards = []
    for period in (1.0, 2.0):
        for align_kind in ("none", "epoch", "epoch+quarter", "tz"):
            for phase_f in (0.0, 0.0004, 1.0 / 3.0, 0.75):
                shards.append(("actor", tier, period, align_kind, phase_f))
    for period in (1.0, 2.0):
        for align_kind in ("epoch", "epoch+quarter", "tz"):
            for phase_f in (0.0, 1.0 / 3.0):
                shards.append(("mw", tier, period, align_kind, phase_f))
    for period in (1.0, 7.0):
        for phase_f in (0.0, 0.000401, 1.0 / 3.0):  # 401 us: an odd number of microseconds since 1601
            shards.append((tier, period, "ancient", phase_f))
    for period in (1.0, 2.0, 7.0):  # 7 s does not divide a day
        for align_kind in ("none", "epoch", "epoch+quarter", "future", "tz", "dst"):
            if period == 7.0 and align_kind in ("none", "future"):
                continue
            for phase_f in (0.0, 0.0004, 0.25, 1.0 / 3.0, 0.5, 0.75, 0.9996):
                if period == 7.0 and phase_f in (0.25, 0.5, 0.9996):
                    continue
                shards.append((tier, period, align_kind, phase_f))
    if seed:
        import random

        random.Random(seed).shuffle(shards)
    acc = pmap_acc(_dispatch, shards, workers)
    meta = {
        "rule": "periods 1 s, 2 s and 7 s (which does not divide a day) x 6 align_to settings (None, epoch, epoch + quarter period, a future instant, "
        "an instant given in a time zone whose UTC offset is not a multiple of the period, an instant in a DST-observing zone with the "
        "run crossing the end of DST) x 7 creation phases relative to the grid (exactly aligned, 400 us after and before a "
        "grid point, 1/4, 1/3, 1/2, 3/4) x series added before start / after tick k (2-3 series; in one variant no series exists until tick 2; without deviations also 20 series) x every deviation set with at most "
        "1 (quick: plus selected pairs) / 2 (thorough) deviations among: timer wake-up k late by 0.3 / 1 / 1.5 / 3.2 periods, sink call k "
        "taking 0.5 / 1 / 2.5 periods; horizon 10 periods; non-trivial = at least one deviation; plus the real "
        "ComponentMetricsResamplingActor (subscriptions through its request channel, before the first tick or after tick k; outputs read "
        "from the registry channels) for 32 configurations x timer-lateness sets; plus an align_to of 1601-01-01 (more than 2**53 us away) with "
        "an odd-microsecond creation instant; plus the Resampler a MovingWindow builds from resampler_config (12 configurations)",
        "assumptions": [
            "resample() is re-invoked whenever it returns or raises, as ComponentMetricsResamplingActor does (an IndexError raised when a "
            "series is added while a gather over slow sinks is in flight is counted, not flagged)",
            "wall clock bound to the virtual clock; lateness is modelled as the loop waking up late for a timer",
            "the source delivers one valid sample every third tick (sparser than the resampling period)",
        ],
        "exhaustive": True,
        "bounds": {"horizon_periods": N_TICKS, "max_deviations": 1 if tier == "quick" else 2},
    }
    return acc, meta


def replay(case: dict):
    if case.get("driver") == "moving-window":
        created, out, end_now, align, P = run_moving_window_case(case["period"], case["align"], case["phase"])
        return oracle(created, out, end_now, align, P, {"mw": 0})
    if case.get("driver") == "actor":
        sub_at = {int(k): v for k, v in case["sub_at"].items()}
        created, out, end_now, n_ds, align, P = run_actor_case(case["period"], case["align"], case["phase"],
                                                                {k: l for k, l in case["lates"]}, sub_at)
        return oracle(created, out, end_now, align, P, {f"c{cid}": k for cid, k in sub_at.items()})
    devs = [tuple(d) for d in case["deviations"]]
    lates = {k: l for kind, k, l in devs if kind == "late"}
    sinks = {("a", k): l for kind, k, l in devs if kind == "sink"}
    created, out, end_now, excs, align, P = run_case(case["period"], case["align"], case["phase"], lates, sinks, case["add_at"])
    return oracle(created, out, end_now, align, P, case["add_at"])
