"""C08 — resampled values use exactly the recent, non-future input samples (E2).

The real ``Resampler`` with a *recording* resampling function (passed through the public
``ResamplerConfig``) runs on the virtual loop; every operation history over
{receive a sample stamped Δ after the previous one (valid / None / NaN), tick} up to a
depth is executed and, at every tick, the sequence handed to the function is compared
with a list-based reference.
"""
from __future__ import annotations

import itertools
import math
from datetime import timedelta

from frequenz.channels import Broadcast
from frequenz.quantities import Quantity

from frequenz.sdk.timeseries import Sample
from frequenz.sdk.timeseries._resampling import Resampler, ResamplerConfig

from ..core import Acc, Violation
from ..explore import pmap_acc
from ..vloop import T0_WALL, virtual_loop
from . import formula as F

PID = "C08"
P = 1.0
Q = 0.25  # stamps advance in quarters of the period

ALPHABET = [("s", 1, "v"), ("s", 2, "v"), ("s", 4, "v"), ("s", 10, "v"), ("s", 1, "none"), ("s", 2, "nan"), ("t",)]
ALPHABET_T = ALPHABET + [("s", 3, "v"), ("s", 0, "v")]
# (max_data_age_in_periods, initial_buffer_len[, warn_buffer_len, max_buffer_len])
# ... [, resampling period in seconds] - 0.2 s is not exactly representable in binary floating point
CONFIGS_Q = [(1.0, 2), (3.0, 4), (1.5, 1), (3.0, 16), (3.0, 2, 3, 4), (2.0, 4, None, None, 0.2)]
CONFIGS_T = CONFIGS_Q + [(1.0, 1), (1.0, 4), (1.5, 2), (3.0, 1), (2.0, 2), (2.0, 1, 1, 2), (1.0, 2, None, None, 0.2), (3.0, 4, None, None, 0.6)]


def run_ops(ops, max_age, init_len, warn=None, maxlen=None, P=P):
    """Returns per-tick records: (T, value, captured stamps or None, retained list, capacity, input period)."""
    Q = P / 4.0
    log = []
    with virtual_loop(wall=True) as loop:
        captured = []

        def fn(samples, cfg, props):
            captured.append([round((s.timestamp - T0_WALL).total_seconds(), 6) for s in samples])
            if any(s.value is None or s.value.isnan() for s in samples):
                captured[-1].append("INVALID-SAMPLE-PASSED")
            return float(len(samples))

        extra = {} if maxlen is None else {"warn_buffer_len": warn, "max_buffer_len": maxlen}
        cfg = ResamplerConfig(resampling_period=timedelta(seconds=P), max_data_age_in_periods=max_age, resampling_function=fn,
                              initial_buffer_len=init_len, align_to=None, **extra)
        r = Resampler(cfg)
        src = Broadcast(name="source")
        rx = src.new_receiver()
        out = []

        async def sink(s):
            out.append((round((s.timestamp - T0_WALL).total_seconds(), 6), None if s.value is None else s.value.base_value))

        r.add_timeseries("series", rx, sink)
        snd = src.new_sender()
        task = loop.create_task(r.resample())
        loop.settle()
        stamp = 0.0
        retained = []  # valid samples as the reference retains them
        cap = init_len
        for op in ops:
            if op[0] == "s":
                stamp = round(stamp + op[1] * Q, 6)
                # every other valid sample is +inf / -inf: not finite, but neither None nor NaN
                nvalid = len(retained)
                v = {"v": Quantity((5.0, math.inf, -math.inf)[nvalid % 3]), "none": None, "nan": Quantity(math.nan)}[op[2]]
                F.push(snd, Sample(T0_WALL + timedelta(seconds=stamp), v))
                loop.settle()
                if op[2] == "v":
                    retained.append(stamp)
                    retained[:] = retained[-cap:]
            else:
                n0, c0 = len(out), len(captured)
                nt = loop.next_timer()
                if nt is None:
                    break
                loop.set_time(nt)
                loop.settle()
                helper = r._resamplers[rx]._helper
                props = r.get_source_properties(rx)
                cap = helper._buffer.maxlen
                retained[:] = retained[-cap:]
                emitted = out[n0:]
                log.append({
                    "emitted": emitted,
                    "captured": captured[c0:] ,
                    "retained": list(retained),
                    "capacity": cap,
                    "input_period": None if props.sampling_period is None else props.sampling_period.total_seconds(),
                    "max_buffer_len": cfg.max_buffer_len,
                })
        task.cancel()
        loop.settle()
        loop.create_task(r.stop())
        loop.settle()
    return log


def us(x):
    return int(round(x * 1e6))


def oracle(log, max_age, init_len, P=P):
    v = []
    for i, rec in enumerate(log):
        if len(rec["emitted"]) != 1:
            v.append(("one_sample_per_tick", {"tick": i, "emitted": rec["emitted"]}))
            break
        T, val = rec["emitted"][0]
        inper = rec["input_period"]
        if inper is not None and inper <= 0:
            v.append(("input_period_estimate_is_positive", {"tick": i, "T": T, "input_period": inper, "capacity": rec["capacity"]}))
            break
        W = max_age * max(P, inper if inper else P)
        # exact (microsecond) arithmetic, as timedelta does it: binary floats cannot represent 0.2 s steps
        exp = [s for s in rec["retained"] if us(T) - us(W) < us(s) <= us(T)]
        got = rec["captured"][0] if rec["captured"] else []
        if len(rec["captured"]) > 1:
            v.append(("function_called_once_per_tick", {"tick": i, "calls": len(rec["captured"])}))
            break
        if "INVALID-SAMPLE-PASSED" in got:
            v.append(("none_and_nan_samples_never_passed", {"tick": i, "passed": got}))
            break
        if any(isinstance(s, float) and us(s) > us(T) for s in got):
            v.append(("future_samples_never_passed", {"tick": i, "T": T, "passed": got}))
            break
        if got != exp:
            v.append(("function_gets_exactly_the_relevant_samples_in_arrival_order",
                      {"tick": i, "T": T, "window_s": W, "passed": got, "expected": exp, "capacity": rec["capacity"], "input_period": inper}))
            break
        if (val is None) != (len(exp) == 0):
            v.append(("value_none_exactly_when_no_relevant_sample", {"tick": i, "T": T, "value": val, "relevant": exp}))
            break
        cap = rec["capacity"]
        if inper is None:
            if cap != init_len:
                v.append(("buffer_capacity_as_configured", {"tick": i, "capacity": cap, "initial_buffer_len": init_len}))
                break
        else:
            need = math.ceil(P / inper * max_age) if inper <= P else 1
            if not (1 <= cap <= rec["max_buffer_len"]) or cap < min(need, rec["max_buffer_len"]):
                v.append(("buffer_capacity_as_configured", {"tick": i, "capacity": cap, "needed_at_least": need, "input_period": inper}))
                break
    return v


CLAUSES = ["one_sample_per_tick", "none_and_nan_samples_never_passed", "future_samples_never_passed",
           "function_gets_exactly_the_relevant_samples_in_arrival_order", "value_none_exactly_when_no_relevant_sample",
           "buffer_capacity_as_configured", "input_period_estimate_is_positive"]


def shard(args) -> Acc:
    tier, cfg_, prefix, depth = args
    max_age, init_len = cfg_[0], cfg_[1]
    buf = tuple(cfg_[2:4]) if len(cfg_) > 2 else ()
    period = cfg_[4] if len(cfg_) > 4 else P
    acc = Acc()
    alpha = ALPHABET if tier == "quick" else ALPHABET_T
    for tail in itertools.product(alpha, repeat=depth):
        ops = list(prefix) + list(tail)
        if ("t",) not in ops:
            continue
        full = ops + [("t",)]
        log = run_ops(full, max_age, init_len, *(buf or (None, None)), P=period)
        viol = oracle(log, max_age, init_len, P=period)
        acc.evaluations += 1
        acc.traces += 1
        acc.transitions += len(full)
        nt = sum(1 for o in full if o == ("t",))
        for c in CLAUSES:
            acc.clauses[c] += nt
        if any(o[0] == "s" and o[2] != "v" for o in full) or any(rec["input_period"] for rec in log):
            acc.nontrivial += 1
        acc.outcome(f"ticks={nt} resized={'yes' if any(rec['capacity'] != init_len for rec in log) else 'no'}")
        acc.state(repr((cfg_, ops)))
        if acc.evaluations % 5000 == 1:
            acc.sample({"max_data_age_in_periods": max_age, "initial_buffer_len": init_len, "ops": [list(o) for o in full],
                        "ticks": [{k: rec[k] for k in ("emitted", "captured", "capacity", "input_period")} for rec in log]})
        for clause, detail in viol:
            acc.violation(Violation(clause, {"max_age": max_age, "init_len": init_len, "buffer_limits": list(buf), "period": period,
                                             "ops": [list(o) for o in full]}, detail))
    return acc


def run(tier: str, seed: int, workers: int):
    alpha = ALPHABET if tier == "quick" else ALPHABET_T
    cfgs = CONFIGS_Q if tier == "quick" else CONFIGS_T
    depth = 5 if tier == "quick" else 6
    shards = []
    for cfg_ in cfgs:
        for e1 in alpha:
            if tier == "quick":
                shards.append((tier, cfg_, [e1], depth - 1))
            else:
                for e2 in alpha:
                    shards.append((tier, cfg_, [e1, e2], depth - 2))
    if seed:
        import random

        random.Random(seed).shuffle(shards)
    acc = pmap_acc(shard, shards, workers)
    meta = {
        "rule": "every operation history of length 5 (quick) / 6 (thorough) + a final tick over {receive a sample stamped 0.25 / 0.5 / 1 / 2.5 "
        "periods after the previous one - possibly after the next tick - valid / None / NaN; tick} containing at least one tick, for "
        "5 (quick) / 11 (thorough) configurations of max_data_age_in_periods x initial_buffer_len (one / two with a small custom "
        "max_buffer_len that the computed length exceeds), resampling period 1 s (one / three configurations: 0.2 s, 0.6 s, which are "
        "not exactly representable in binary floating point, at a wall clock of 1.7e9 s); the recording "
        "resampling function captures the exact sequence it is handed; non-trivial = history with an invalid sample or a published "
        "input period (buffer resized)",
        "assumptions": [
            "time-ordered input (stamps never decrease), as the property states",
            "'the most recent ones that fit the configured buffer' is modelled as a retained list truncated to the capacity in force; the "
            "capacity is read from the helper's deque (its only internal dependency) and must be the configured initial length until "
            "an input period is published, afterwards within [1, max_buffer_len] and large enough for the window when down-sampling",
            "samples are delivered at quiescence (sequential schedule)",
        ],
        "exhaustive": True,
        "bounds": {"depth": depth, "configs": [list(c) for c in cfgs]},
    }
    return acc, meta


def replay(case: dict):
    ops = [tuple(o) for o in case["ops"]]
    bl = case.get("buffer_limits") or [None, None]
    per = case.get("period", P)
    return oracle(run_ops(ops, case["max_age"], case["init_len"], *bl, P=per), case["max_age"], case["init_len"], P=per)
