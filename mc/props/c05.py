"""C05 — formula output equals the arithmetic value of the expression.

E3 over programs (expression trees built through the Python API, and formula strings),
each *run* on the real streaming path under the virtual loop with one input vector per
timestamp; outputs compared with a reference evaluator (trees) or an independent
precedence-climbing parser (strings).
"""
from __future__ import annotations

import itertools

from ..core import Acc, Violation
from ..explore import pmap_acc
from . import formula as F

PID = "C05"
VALUES_Q = [-7.0, 0.0, 3.0]
VALUES_T = [-7.0, -1.0, 0.0, 0.5, 3.0]


TINY = [(3.0, 4e-10, -7.0), (4e-10, -7.0, 4e-10), (-7.0, 0.1 + 0.2, 0.3), (-3e-10, 3.0, 0.5)]


def input_vectors(names, values):
    """Every combination of the menu values, plus a few vectors with finite values that are tiny but not zero
    (and a pair that nearly cancels): "zero" in the property means exactly zero."""
    out = [dict(zip(names, combo)) for combo in itertools.product(values, repeat=len(names))]
    for vec in TINY:
        out.append({n: vec[i % 3] for i, n in enumerate(names)})
    return out


def deep_trees():
    """Shape-directed trees with 3-4 operators: a binary node whose operands are both composite (or unary) becomes
    the left / right operand of another binary node - the situations in which the composition API has to add
    parentheses on both sides."""
    lefts = [("leaf", "A"), ("bin", "+", ("leaf", "A"), ("leaf", "B")), ("bin", "*", ("leaf", "A"), ("leaf", "B")),
             ("un", "production", ("leaf", "A"))]
    rights = [("leaf", "C"), ("bin", "+", ("leaf", "B"), ("leaf", "C")), ("bin", "/", ("leaf", "C"), ("leaf", "B")),
              ("un", "consumption", ("leaf", "C"))]
    outer = [("leaf", "C"), ("const", 2.0), ("bin", "-", ("leaf", "A"), ("leaf", "C"))]
    out = []
    for op1, op2 in itertools.product(F.BIN, F.BIN):
        for l, r, z in itertools.product(lefts, rights, outer):
            inner = ("bin", op1, l, r)
            if F.n_ops(inner) < 2:
                continue
            out.append(("bin", op2, inner, z))
            if z[0] != "const":
                out.append(("bin", op2, z, inner))
    return out


def check_tree(tree, values):
    names = sorted(set(F.leaves_of(tree)))
    inputs = input_vectors(names, values)
    out, errors = F.run_tree(tree, inputs)
    got = dict(out)
    v = []
    n_cmp = 0
    for k, vals in enumerate(inputs):
        if F.has_undefined(tree, vals, {}, False):
            continue  # undefined reference value (division by zero): C13's subject
        exp = F.ref_eval(tree, vals, {}, False)
        n_cmp += 1
        if k not in got:
            v.append(("one_sample_per_timestamp", {"timestamp": k, "inputs": vals}))
        elif not F.close(got[k], exp):
            v.append(("value_equals_expression", {"timestamp": k, "inputs": vals, "got": got[k], "expected": exp}))
        if len(v) >= 3:
            break
    ks = [k for k, _ in out]
    if ks != sorted(set(ks)):
        v.append(("samples_in_order_without_duplicates", {"timestamps": ks[:20]}))
    return v, n_cmp, len(inputs)


def check_string(formula, values, ids=(1, 2, 3)):
    inputs = input_vectors(list(ids), values)
    out, requested, used = F.run_string(formula, inputs)
    got = dict(out)
    v = []
    n_cmp = 0
    if requested != used:
        v.append(("subscribes_to_every_component_in_the_formula", {"requested": requested, "used": used}))
    for k, vals in enumerate(inputs):
        exp = F.ref_string(formula, vals)
        if exp is None:
            continue
        n_cmp += 1
        if k not in got:
            v.append(("one_sample_per_timestamp", {"timestamp": k, "inputs": vals}))
        elif not F.close(got[k], exp):
            v.append(("value_equals_expression", {"timestamp": k, "inputs": {str(a): b for a, b in vals.items()}, "got": got[k], "expected": exp}))
        if len(v) >= 3:
            break
    return v, n_cmp, len(inputs)


def check_tree_3phase(tree, values):
    names = sorted(set(F.leaves_of(tree)))
    base = input_vectors(names, values)
    offs = (0.0, 1.0, -2.0)
    inputs = [{n: tuple(v[n] + o for o in offs) for n in names} for v in base]
    out = F.run_tree_3phase(tree, inputs)
    got = dict(out)
    v = []
    n_cmp = 0
    for k, vals in enumerate(inputs):
        per_phase = [{n: vals[n][ph] for n in names} for ph in range(3)]
        if any(F.has_undefined(tree, pv, {}, False) for pv in per_phase):
            continue
        exp = tuple(F.ref_eval(tree, pv, {}, False) for pv in per_phase)
        n_cmp += 1
        if k not in got:
            v.append(("one_sample_per_timestamp", {"timestamp": k, "three_phase": True, "inputs": vals}))
        elif not all(F.close(g, e) for g, e in zip(got[k], exp)):
            v.append(("value_equals_expression", {"timestamp": k, "three_phase": True, "inputs": vals, "got": list(got[k]), "expected": list(exp)}))
        if len(v) >= 3:
            break
    return v, n_cmp, len(inputs)


METER_FORMULAS_Q = ["#1 + #2", "#1 * #2", "#1 - #2 * #1", "#1 * (#2 + #1)", "#1 + (#2 * #1)"]
METER_FORMULAS_T = METER_FORMULAS_Q + ["#1 / #2", "#1-#2", "(#1 - #2) * #1", "#2 + #1"]
METER_INPUTS = [{1: 3.0, 2: -7.0}, {1: 0.0, 2: 3.0}, {1: 5.0, 2: 2.0}, {1: -7.0, 2: -7.0}, {1: 0.5, 2: 0.0}]


def meter_plans(tier):
    """Every ordered pair (quick) / also every triple over a reduced menu (thorough) of (formula string, metric)
    handed to one LogicalMeter; includes the same string for two metrics and the same (string, metric) twice."""
    fs = METER_FORMULAS_Q if tier == "quick" else METER_FORMULAS_T
    items = [(f, m) for f in fs for m in (0, 1)]
    plans = [list(p) for p in itertools.product(items, repeat=2)]
    if tier != "quick":
        small = [(f, m) for f in METER_FORMULAS_Q[:3] for m in (0, 1)]
        plans += [list(p) for p in itertools.product(small, repeat=3)]
    return plans


def check_meter(plan):
    plan = [tuple(x) for x in plan]
    outs, reqs = F.run_meter(plan, METER_INPUTS)
    v = []
    n_cmp = 0
    want = sorted({(cid, m) for f, m in plan for cid in (1, 2) if f"#{cid}" in f})
    if reqs != want:
        v.append(("subscribes_to_every_component_in_the_formula", {"requested": reqs, "used": want}))
    for label, out in outs.items():
        got = dict(out)
        ks = [k for k, _ in out]
        if ks != sorted(set(ks)):
            v.append(("samples_in_order_without_duplicates", {"engine": label, "timestamps": ks[:20]}))
        for k, vals in enumerate(METER_INPUTS):
            exp = F.ref_meter(label, plan, vals)
            if exp is None:
                continue
            n_cmp += 1
            if k not in got:
                v.append(("one_sample_per_timestamp", {"engine": label, "timestamp": k, "inputs": {str(a): b for a, b in vals.items()}}))
            elif not F.close(got[k], exp):
                v.append(("value_equals_expression", {"engine": label, "timestamp": k, "inputs": {str(a): b for a, b in vals.items()},
                                                      "got": got[k], "expected": exp}))
            if len(v) >= 3:
                return v, n_cmp, len(outs)
    return v, n_cmp, len(outs)


CLAUSES = ["value_equals_expression", "one_sample_per_timestamp", "samples_in_order_without_duplicates"]


def shard(args) -> Acc:
    kind, tier, lo, hi = args
    acc = Acc()
    values = VALUES_Q if tier == "quick" else VALUES_T
    if kind == "tree3":
        n = lo[0]
        progs = F.trees(n, leaves=["A", "B"])[lo[1]:hi]
        for t in progs:
            viol, n_cmp, n_in = check_tree_3phase(t, values[:3])
            acc.evaluations += n_in
            acc.transitions += n_in
            acc.traces += 1
            acc.counters["programs"] += 1
            acc.counters["timestamps_compared"] += n_cmp
            for c in CLAUSES:
                acc.clauses[c] += 1
            if F.n_ops(t) >= 1:
                acc.nontrivial += 1
            acc.outcome(f"tree3 ops={F.n_ops(t)}")
            for clause, detail in viol:
                acc.violation(Violation(clause, {"driver": "tree3", "tree": t, "shown": F.show(t), "values": values[:3]}, detail))
    elif kind == "meter":
        for plan in meter_plans(tier)[lo[1]:hi]:
            viol, n_cmp, n_eng = check_meter(plan)
            acc.evaluations += n_cmp
            acc.transitions += n_cmp
            acc.traces += 1
            acc.counters["programs"] += n_eng
            acc.counters["logical_meter_plans"] += 1
            acc.counters["timestamps_compared"] += n_cmp
            for c in CLAUSES:
                acc.clauses[c] += 1
            acc.nontrivial += 1
            same_f = len({f for f, _ in plan}) < len(plan)
            same_m = len({m for _, m in plan}) < len(plan)
            acc.outcome(f"meter same_formula={same_f} same_metric={same_m}")
            if acc.traces % 40 == 1:
                acc.sample({"logical_meter_plan": plan, "engines": n_eng})
            for clause, detail in viol:
                acc.violation(Violation(clause, {"driver": "meter", "plan": plan}, detail))
    elif kind in ("tree", "deep"):
        n = lo[0]
        progs = (F.trees(n) if kind == "tree" else deep_trees())[lo[1]:hi]
        for t in progs:
            viol, n_cmp, n_in = check_tree(t, values)
            acc.evaluations += n_in
            acc.transitions += n_in
            acc.traces += 1
            acc.counters["programs"] += 1
            acc.counters["timestamps_compared"] += n_cmp
            for c in CLAUSES:
                acc.clauses[c] += 1
            if F.n_ops(t) >= 2 and len(set(F.leaves_of(t))) >= 2:
                acc.nontrivial += 1
            acc.outcome(f"tree ops={F.n_ops(t)}")
            if acc.traces % 500 == 1:
                acc.sample({"program": F.show(t), "timestamps": n_in})
            for clause, detail in viol:
                acc.violation(Violation(clause, {"driver": "tree", "tree": t, "shown": F.show(t), "values": values}, detail))
    else:
        progs = F.string_programs(lo[0])[lo[1]:hi]
        for f in progs:
            viol, n_cmp, n_in = check_string(f, values)
            acc.evaluations += n_in
            acc.transitions += n_in
            acc.traces += 1
            acc.counters["programs"] += 1
            acc.counters["timestamps_compared"] += n_cmp
            for c in CLAUSES:
                acc.clauses[c] += 1
            if sum(f.count(o) for o in "+-*/") >= 2:
                acc.nontrivial += 1
            acc.outcome(f"string ops={sum(f.count(o) for o in '+-*/')}")
            if acc.traces % 300 == 1:
                acc.sample({"formula": f, "timestamps": n_in})
            for clause, detail in viol:
                acc.violation(Violation(clause, {"driver": "string", "formula": f, "values": values}, detail))
    acc.states = acc.traces
    return acc


def run(tier: str, seed: int, workers: int):
    shards = []
    step = 120
    for n in ([1, 2] if tier == "quick" else [1, 2, 3]):
        total = len(F.trees(n))
        for lo in range(0, total, step):
            shards.append(("tree", tier, (n, lo), lo + step))
    for lo in range(0, len(deep_trees()), step):
        shards.append(("deep", tier, (0, lo), lo + step))
    for n in ([1] if tier == "quick" else [1, 2]):
        total = len(F.trees(n, leaves=["A", "B"]))
        for lo in range(0, total, step):
            shards.append(("tree3", tier, (n, lo), lo + step))
    mo = 3 if tier == "quick" else 4
    total = len(F.string_programs(mo))
    for lo in range(0, total, step):
        shards.append(("string", tier, (mo, lo), lo + step))
    for lo in range(0, len(meter_plans(tier)), 20):
        shards.append(("meter", tier, (0, lo), lo + 20))
    if seed:
        import random

        random.Random(seed).shuffle(shards)
    acc = pmap_acc(shard, shards, workers)
    meta = {
        "rule": "programs: every expression tree with up to 2 (quick) / 3 (thorough) operator nodes over leaves A,B,C (repeats allowed), "
        "binary + - * / max min, unary consumption/production, a constant as right operand, built through the Python operator API "
        "in the association the tree dictates; plus shape-directed trees with 3-4 operators in which a binary node with composite or "
        "unary operands is itself the left / right operand of another binary node; every formula string with up to 3 (quick) / 4 (thorough) operators over #1 #2 #3 with "
        "flat, one and two (nested or disjoint) parenthesised ranges, redundant parentheses and no-whitespace variants; the same trees with "
        "1 (quick) / 2 (thorough) operators over 3-phase engines (FormulaEngine3Phase leaves, per-phase reference); every ordered pair "
        "(thorough: also every triple over a reduced menu) of (formula string, metric) from 5 (quick) / 9 strings x {ACTIVE_POWER, REACTIVE_POWER} "
        "started through one LogicalMeter.start_formula (engine pool), with the streams of the two metrics carrying different values, every "
        "pair of the returned engines composed with each of + - * / max min and built, all engines compared.  Inputs: one "
        "timestamp per combination of leaf values from {-7,0,3} (quick) / {-7,-1,0,0.5,3}, plus 4 vectors with tiny non-zero and "
        "nearly cancelling values.  A program is one trace; an evaluation "
        "is one timestamp; non-trivial = at least 2 operators and 2 distinct leaves",
        "assumptions": [
            "lock-step delivery of the inputs (the schedule dimension is C06's subject)",
            "timestamps whose reference value is undefined (division by zero) are excluded here and decided by C13",
            "engines the caller builds and names itself have distinct names (the names of engines started through LogicalMeter are "
            "chosen by the SDK and are part of what is checked)",
        ],
        "exhaustive": True,
        "bounds": {"tree_ops": 2 if tier == "quick" else 3, "string_ops": mo},
    }
    return acc, meta


def _tuplify(t):
    return tuple(_tuplify(x) if isinstance(x, list) else x for x in t)


def replay(case: dict):
    if case["driver"] == "meter":
        v, _, _ = check_meter(case["plan"])
        return v
    if case["driver"] == "tree3":
        v, _, _ = check_tree_3phase(_tuplify(case["tree"]), case["values"])
        return v
    if case["driver"] == "tree":
        v, _, _ = check_tree(_tuplify(case["tree"]), case["values"])
        return v
    v, _, _ = check_string(case["formula"], case["values"])
    return v
