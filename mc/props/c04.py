"""C04 — lower-priority preferences are honoured only inside higher-priority bounds (E3).

Real ``Matryoshka`` against the interval-arithmetic reference (``mc/ref/matryoshka.py``)
on every conflict-free proposal set of the menu; the relation between ``get_status``
bounds / ``adjust_to_bounds`` and the target actually adopted; and the equivalence of
an empty proposal with no proposal.
"""
from __future__ import annotations

import itertools
from datetime import timedelta

from ..core import Acc, Violation
from ..explore import pmap_acc
from ..ref import matryoshka as ref
from . import c03
from .c03 import IDS, MAX_AGE, SYSTEMS, W, prop, sb
from frequenz.sdk.microgrid._power_managing._matryoshka import Matryoshka

PID = "C04"

PREFS = [None, -300, -100, -60, -50, 0, 50, 60, 100, 300]
BNDS = [None, -300, -100, -60, 0, 60, 100, 300]
# (+-0.5 mW: "zero" means exactly zero; a tiny non-zero power inside the exclusion zone is not admissible)
XVALS = [-300, -200, -100, -60, -50, -10, -0.0005, 0, 0.0005, 10, 50, 60, 100, 200, 300]


def build(props, sysb):
    m = Matryoshka(max_proposal_age=timedelta(seconds=MAX_AGE))
    S = sb(*sysb)
    for pr in props:
        m.calculate_target_power(IDS, prop(pr[1], pr[0], pr[2], pr[3], pr[4]), S)
    return m, S


def target(m, S):
    t = m.calculate_target_power(IDS, None, S, must_return_power=True)
    return None if t is None else t.as_watts()


def check_target(sysb, props):
    """Reference comparison + None-proposal differential for one conflict-free set."""
    exp = ref.ref_target(sysb, props)
    if exp is None:
        return None, []
    m, S = build(props, sysb)
    w = target(m, S)
    v = []
    if w not in exp:
        v.append(("target_is_closest_admissible_value_to_lowest_priority_preference", {"target": w, "acceptable": sorted(exp)}))
    # differential: an empty proposal at any priority changes nothing
    for prio in (0, 4):
        m2, _ = build(list(props) + [(prio, "zz-empty", None, None, None)], sysb)
        w2 = target(m2, S)
        if w2 != w:
            v.append(("empty_proposal_equivalent_to_no_proposal", {"target": w, "with_empty_proposal": w2, "priority": prio}))
        for q in (1, 2, 3):
            r1 = m.get_status(IDS, q, S).bounds
            r2 = m2.get_status(IDS, q, S).bounds
            # compared as usable sets: an interval end inside the exclusion zone denotes the same
            # usable range as the zone's edge
            u1 = ref.usable(r1.lower.as_watts(), r1.upper.as_watts(), sysb[2], sysb[3])
            u2 = ref.usable(r2.lower.as_watts(), r2.upper.as_watts(), sysb[2], sysb[3])
            if u1 != u2:
                v.append(("empty_proposal_equivalent_to_no_proposal",
                          {"reported_bounds": [r1.lower.as_watts(), r1.upper.as_watts()],
                           "with_empty_proposal": [r2.lower.as_watts(), r2.upper.as_watts()], "priority": prio, "asked_for": q}))
    return w, v


def check_status_relation(sysb, higher, own_bounds=None, tie=None):
    """higher: bounds-only proposals of priority 3 and 2; actor 'c' has priority 1."""
    slo, shi, el, eu = sysb
    v = []
    n = 0
    for x in XVALS:
        m, S = build(higher, sysb)
        if own_bounds is not None:
            # the asking actor's own earlier proposal (bounds only) must not narrow what is reported to it
            m.calculate_target_power(IDS, prop("c", 1, None, own_bounds[0], own_bounds[1]), S)
        if tie is not None:
            # another actor with the asker's priority (ties are ordered by source id) that only sets bounds
            m.calculate_target_power(IDS, prop(tie[0], 1, None, tie[1], tie[2]), S)
        rep = m.get_status(IDS, 1, S)
        L, U = rep.bounds.lower.as_watts(), rep.bounds.upper.as_watts()
        m.calculate_target_power(IDS, prop("c", 1, x, None, None), S)
        w = m.get_target_power(IDS).as_watts()
        n += 1
        has_zone = not (el == 0 and eu == 0)
        in_excl = has_zone and (el < x < eu)
        adj = rep.adjust_to_bounds(W(x))
        adj_vals = {a.as_watts() for a in adj if a is not None}
        if x == 0:
            # 0 must be adopted when the reported range straddles the zone (or there is no zone and 0 is in
            # range); in the remaining one-sided cases the wording admits both readings
            must = (L <= el and eu <= U) if has_zone else (L <= 0 <= U)
            if must and w != 0:
                v.append(("own_preference_adopted_iff_inside_reported_bounds", {"x": x, "reported": [L, U], "target": w}))
            continue
        adopt_expected = (L <= x <= U) and not in_excl
        if (w == x) != adopt_expected:
            v.append(("own_preference_adopted_iff_inside_reported_bounds", {"x": x, "reported": [L, U], "target": w}))
        if (adj_vals == {x}) != adopt_expected:
            v.append(("adjust_to_bounds_returns_value_unchanged_iff_adoptable", {"x": x, "reported": [L, U], "adjusted": sorted(adj_vals)}))
        if adj_vals and w not in adj_vals:
            v.append(("target_is_among_adjust_to_bounds_candidates", {"x": x, "target": w, "adjusted": sorted(adj_vals)}))
    return n, v


CLAUSES = ["target_is_closest_admissible_value_to_lowest_priority_preference", "empty_proposal_equivalent_to_no_proposal",
           "own_preference_adopted_iff_inside_reported_bounds", "adjust_to_bounds_returns_value_unchanged_iff_adoptable",
           "target_is_among_adjust_to_bounds_candidates"]


def shard(args) -> Acc:
    kind, tier, si, k = args
    acc = Acc()
    sysb = SYSTEMS[si]
    if kind == "target":
        p1 = PREFS[k]
        a1 = [(p1, lo, hi) for lo in BNDS for hi in BNDS if lo is None or hi is None or lo <= hi]
        if tier == "quick":
            a2 = [(p, lo, hi) for p in (None, -300, -60, 0, 50, 100) for lo in (None, -100, 0) for hi in (None, 0, 100)]
            a3 = [(p, None, None) for p in (None, -50, 300, 0.0005)]
        else:
            a2 = [(p, lo, hi) for p in PREFS for lo in (None, -100, -60, 0, 60) for hi in (None, -60, 0, 60, 100)
                  if lo is None or hi is None or lo <= hi]
            a3 = [(p, lo, None) for p in (None, -50, 0, 10, 300, 0.0005, -0.00025) for lo in (None, -100)]
        prio3 = 1 if tier == "quick" else 2
        for v1, v2, v3 in itertools.product(a1, a2, a3):
            props = [(3, "a", *v1), (2, "b", *v2), (prio3, "c", *v3)]
            w, viol = check_target(sysb, props)
            acc.evaluations += 1
            if w is None and not viol:
                acc.counters["skipped_conflicting_sets"] += 1
                continue
            acc.traces += 1
            acc.transitions += 3
            acc.clauses[CLAUSES[0]] += 1
            acc.clauses[CLAUSES[1]] += 2
            prefs_given = sum(1 for p in props if p[2] is not None)
            bounds_given = sum(1 for p in props if p[3] is not None or p[4] is not None)
            if prefs_given >= 2 and bounds_given >= 1:
                acc.nontrivial += 1
            acc.outcome(f"sys{si} target={'0' if w == 0 else ('pref' if w in (v1[0], v2[0], v3[0]) else 'clamped')}")
            if acc.traces % 20000 == 1:
                acc.sample({"system": list(sysb), "proposals": props, "target": w})
            for clause, detail in viol:
                acc.violation(Violation(clause, {"driver": "target", "system": list(sysb), "proposals": props}, detail))
    else:
        lo1 = BNDS[k]
        bv2 = [None, -100, 0, 30] if tier == "quick" else [None, -100, -60, 0, 30, 60]
        hv2 = [None, 0, 100] if tier == "quick" else [None, -60, 0, 60, 100]
        for hi1, lo2, hi2 in itertools.product(BNDS + [-30, 30], bv2, hv2):
            if lo1 is not None and hi1 is not None and lo1 > hi1:
                continue
            if lo2 is not None and hi2 is not None and lo2 > hi2:
                continue
            hp = [(3, "a", None, lo1, hi1), (2, "b", None, lo2, hi2)]
            if ref.ref_target(sysb, hp + [(1, "c", 5, None, None)]) is None:
                acc.counters["skipped_conflicting_sets"] += 1
                continue
            n, viol = check_status_relation(sysb, hp)
            n2, viol2 = check_status_relation(sysb, hp, own_bounds=(-50, 50))
            n += n2
            viol = viol + [(c, dict(d, own_earlier_bounds=[-50, 50])) for c, d in viol2]
            # equal-priority actors: one sorting before the asker ("a0" < "c"), one after ("d" > "c")
            for tie in (("a0", -50, 50), ("d", -50, 50)):
                if ref.ref_target(sysb, hp + [(1, tie[0], None, tie[1], tie[2]), (1, "c", 5, None, None)]) is None:
                    continue
                n3, viol3 = check_status_relation(sysb, hp, tie=tie)
                n += n3
                cls = ("same-priority-actor-with-greater-source-id-has-bounds",) if tie[0] > "c" else ()
                for c, d in viol3:
                    acc.violation(Violation(c, {"driver": "status", "system": list(sysb), "higher": hp, "tie": list(tie)},
                                            dict(d, same_priority_actor=list(tie)), cls))
            acc.evaluations += n
            acc.traces += 1
            acc.transitions += n
            acc.nontrivial += 1
            for c in CLAUSES[2:]:
                acc.clauses[c] += n
            acc.outcome(f"sys{si} status-relation")
            for clause, detail in viol:
                acc.violation(Violation(clause, {"driver": "status", "system": list(sysb), "higher": hp}, detail))
    acc.states = acc.traces
    return acc


def run(tier: str, seed: int, workers: int):
    shards = []
    for si in range(len(SYSTEMS)):
        for k in range(len(PREFS)):
            shards.append(("target", tier, si, k))
        for k in range(len(BNDS)):
            shards.append(("status", tier, si, k))
    if seed:
        import random

        random.Random(seed).shuffle(shards)
    acc = pmap_acc(shard, shards, workers)
    meta = {
        "rule": "8 system-bounds shapes x three actors (priorities 3, 2 and 1 or a tie at 2) x preferred power and bounds from menus "
        "on, inside and outside every interval edge; only conflict-free sets (decided by the reference model) are in the domain, "
        "the others are counted as skipped; non-trivial = >= 2 preferences and >= 1 bound; plus, for every conflict-free pair of "
        "bounds-only higher-priority proposals, 13 own-preference values checked against get_status / adjust_to_bounds",
        "assumptions": [
            "decided on the stated value menus",
            "equidistant candidates: either is accepted; a preference of exactly 0 with the usable range on one side of the "
            "exclusion zone only: 0 and the nearest usable power are both accepted (the wording admits both)",
        ],
        "exhaustive": True,
        "bounds": {"actors": 3, "systems": len(SYSTEMS)},
    }
    return acc, meta


def replay(case: dict):
    sysb = tuple(case["system"])
    if case["driver"] == "target":
        props = [tuple(p) for p in case["proposals"]]
        _, v = check_target(sysb, props)
        return v
    hp = [tuple(p) for p in case["higher"]]
    if case.get("tie"):
        _, v = check_status_relation(sysb, hp, tie=tuple(case["tie"]))
        return [(c, dict(d, same_priority_actor=case["tie"])) for c, d in v]
    _, v = check_status_relation(sysb, hp)
    _, v2 = check_status_relation(sysb, hp, own_bounds=(-50, 50))
    return v + [(c, dict(d, own_earlier_bounds=[-50, 50])) for c, d in v2]
