"""C15 — distribution results truthfully account for the requested power.

E1 with exhaustive fault vectors: every assignment of an outcome (ok, out-of-range
rejection, client error, unexpected exception, no reply before the timeout) to each
individual ``set_power`` call, for battery pools (real ``BatteryManager``) and PV pools
(real ``PVManager``), over several configurations and requests.
"""
from __future__ import annotations

import itertools
import math

from frequenz.sdk.microgrid._power_distributing.result import Error, OutOfBounds, PartialFailure, Success

from ..core import Acc, Violation
from ..explore import pmap_acc
from . import dist, mgr
from .dist import BatSpec, GroupSpec, InvSpec

PID = "C15"
TOL = 1e-6


def battery_configs(tier):
    b = lambda soc, excl=0.0, incl=1000.0, cap=1000.0: BatSpec(soc, cap, excl, incl)  # noqa: E731
    i = lambda excl=0.0, incl=1000.0: InvSpec(excl, incl)  # noqa: E731
    cfgs = {
        "two-groups-plain": [GroupSpec((b(40),), (i(),)), GroupSpec((b(60),), (i(),))],
        "two-groups-excl": [GroupSpec((b(40, 100, 500),), (i(0, 400),)), GroupSpec((b(60),), (i(200, 1000),))],
        "shared-battery-two-inverters": [GroupSpec((b(50, 0, 1000),), (i(0, 400), i(100, 600)))],
        "two-batteries-one-inverter": [GroupSpec((b(30), b(70, 100, 500, 3000.0)), (i(0, 1000),))],
        "one-full-one-usable": [GroupSpec((b(80),), (i(),)), GroupSpec((b(50, 100, 500),), (i(),))],
        "mixed": [GroupSpec((b(40),), (i(0, 400), i(100, 600))), GroupSpec((b(60, 300, 500),), (i(),))],
    }
    # requested batteries that are left out of the distribution: reported as not working / no data received yet
    cfgs["three-groups-third-not-working"] = ([GroupSpec((b(30),), (i(),)), GroupSpec((b(50, 100, 500),), (i(),)),
                                               GroupSpec((b(70),), (i(),))], frozenset({2}), frozenset())
    cfgs["three-groups-first-without-data"] = ([GroupSpec((b(30),), (i(),)), GroupSpec((b(50),), (i(0, 400),)),
                                                GroupSpec((b(70),), (i(),))], frozenset(), frozenset({0}))
    # one member battery of a two-battery group (shared inverter) is reported as not working while its data is valid
    cfgs["shared-inverter-one-battery-not-working"] = ([GroupSpec((b(30), b(70, 100, 500, 3000.0)), (i(0, 1000),)), GroupSpec((b(50),), (i(),))],
                                                       frozenset({(0, 1)}), frozenset())
    if tier == "thorough":
        cfgs["three-groups"] = [GroupSpec((b(30),), (i(),)), GroupSpec((b(50, 100, 500),), (i(),)),
                                GroupSpec((b(70),), (i(200, 1000),))]
        cfgs["two-by-two"] = [GroupSpec((b(40), b(55)), (i(0, 400), i(100, 600))), GroupSpec((b(60),), (i(),))]
    return {k: (v if isinstance(v, tuple) else (v, frozenset(), frozenset())) for k, v in cfgs.items()}


def battery_requests(groups):
    out = []
    for sign in (1, -1):
        menu = dist.request_menu(groups, 1.0, sign, boundary=True)
        rs = [dist.ref_group(g, sign) for g in groups]
        E = sum(r["adv_excl"] for r in rs)
        I = sum(r["adv_incl"] for r in rs)
        picks = {max(E, 1.0), (E + I) / 2, I, I + 50}
        if sign > 0:
            picks |= {p for p in menu if abs(p - (E + 37)) < 1e-9}
        out += [sign * p for p in sorted(picks) if p > 0]
    return out


PV_SETS = {
    "one": [(-1000.0, 0.0)],
    "two-different": [(-500.0, 0.0), (-1500.0, 0.0)],
    "three": [(-300.0, 0.0), (-800.0, 0.0), (-800.0, 0.0)],
    "one-exhausted": [(0.0, 0.0), (-700.0, 0.0)],
    "four": [(-300.0, 0.0), (-500.0, 0.0), (-800.0, 0.0), (-100.0, 0.0)],
}
PV_REQUESTS = [-100.0, -600.0, -1300.0, -5000.0, 250.0]


def oracle(kind, power, ids_addressed, inv_to_comps, outcomes, r):
    """ids_addressed: components that must appear in succeeded U failed (given the calls)."""
    v = []
    res = r["result"]
    calls = r["calls"]
    if r["error"]:
        v.append(("distribute_power_completes", {"error": r["error"]}))
        return v
    if not isinstance(res, (Success, PartialFailure)):
        v.append(("result_is_success_or_partial_failure", {"result": repr(res)[:300]}))
        return v
    called = {}
    for cid, w in calls:
        if cid in called:
            v.append(("one_set_power_per_inverter", {"inverter": cid}))
        called[cid] = w
    failed_power = res.failed_power.as_watts() if isinstance(res, PartialFailure) else 0.0
    failed = set(res.failed_components) if isinstance(res, PartialFailure) else set()
    succeeded = set(res.succeeded_components)
    total = res.succeeded_power.as_watts() + failed_power + res.excess_power.as_watts()
    tol = TOL * max(1.0, abs(power))
    if not abs(total - power) <= tol:
        v.append(("succeeded_plus_failed_plus_excess_equals_request",
                  {"succeeded": res.succeeded_power.as_watts(), "failed": failed_power,
                   "excess": res.excess_power.as_watts(), "request": power}))
    exp_failed_power = sum(w for cid, w in called.items() if mgr.outcome_fails(outcomes.get(cid, "ok")))
    if not abs(failed_power - exp_failed_power) <= tol:
        v.append(("failed_power_is_sum_of_failed_setpoints", {"reported": failed_power, "expected": exp_failed_power}))
    exp_succ_power = sum(w for cid, w in called.items() if not mgr.outcome_fails(outcomes.get(cid, "ok")))
    if not abs(res.succeeded_power.as_watts() - exp_succ_power) <= tol:
        v.append(("succeeded_power_is_sum_of_accepted_setpoints",
                  {"reported": res.succeeded_power.as_watts(), "commanded_and_accepted": exp_succ_power, "calls": calls}))
    if succeeded & failed:
        v.append(("succeeded_and_failed_disjoint", {"both": sorted(succeeded & failed)}))
    addressed = set()
    exp_failed = set()
    for cid in called:
        addressed |= inv_to_comps[cid]
        if mgr.outcome_fails(outcomes.get(cid, "ok")):
            exp_failed |= inv_to_comps[cid]
    if succeeded | failed != addressed:
        v.append(("succeeded_union_failed_is_addressed", {"succeeded": sorted(succeeded), "failed": sorted(failed),
                                                          "addressed": sorted(addressed)}))
    if failed != exp_failed:
        v.append(("failed_components_are_those_with_failed_calls", {"failed": sorted(failed), "expected": sorted(exp_failed)}))
    if isinstance(res, Success) != (not exp_failed):
        v.append(("success_iff_no_call_failed", {"type": type(res).__name__, "failed_calls": sorted(exp_failed)}))
    return v


CLAUSES = ["distribute_power_completes", "result_is_success_or_partial_failure", "one_set_power_per_inverter",
           "succeeded_plus_failed_plus_excess_equals_request", "failed_power_is_sum_of_failed_setpoints",
           "succeeded_power_is_sum_of_accepted_setpoints", "succeeded_and_failed_disjoint",
           "succeeded_union_failed_is_addressed", "failed_components_are_those_with_failed_calls",
           "success_iff_no_call_failed"]


def eval_battery(groups, power, outcomes, not_working=frozenset(), no_data=frozenset(), adjust_power=True):
    not_working = frozenset(tuple(x) if isinstance(x, list) else x for x in not_working)
    r = mgr.run_battery(groups, power, outcomes, adjust_power=adjust_power, not_working=not_working, no_data=frozenset(no_data))
    inv_to_comps = {}
    for bats, invs in r["layout"]:
        for i in invs:
            inv_to_comps[i] = set(bats)
    return r, oracle("battery", power, None, inv_to_comps, outcomes, r)


def eval_pv(invs, power, outcomes):
    r = mgr.run_pv(invs, power, outcomes)
    return r, oracle("pv", power, None, {i: {i} for i in r["ids"]}, outcomes, r)


def pv_concurrent_shard(_tier) -> Acc:
    """Two PV pools with disjoint inverter sets served by one PVManager: the second request arrives while the calls of
    the first are still awaited (slow replies).  Each result must account for ITS request."""
    acc = Acc()
    invs = [(-500.0, 0.0), (-1500.0, 0.0), (-800.0, 0.0), (-300.0, 0.0)]
    for pa, pb in ((-600.0, -900.0), (-1700.0, -200.0)):
        for vec in itertools.product(("ok", "client", "slow", "hang"), repeat=2):
            for vec_b in (("ok", "ok"), ("client", "ok")):
                outcomes = {11: vec[0], 12: vec[1], 13: vec_b[0], 14: vec_b[1]}
                rs = mgr.run_pv_concurrent(invs, (pa, [0, 1]), (pb, [2, 3]), outcomes)
                acc.evaluations += 1
                acc.traces += 1
                acc.transitions += 6
                acc.nontrivial += 1
                for c in CLAUSES:
                    acc.clauses[c] += 2
                acc.state(("pv-concurrent", pa, pb, vec, vec_b))
                acc.outcome("pv two requests in flight")
                for r, power in zip(rs, (pa, pb)):
                    viol = oracle("pv", power, None, {i: {i} for i in r["ids"]}, outcomes, r)
                    for clause, detail in viol:
                        acc.violation(Violation(clause, {"kind": "pv-concurrent", "powers": [pa, pb], "outcomes": {str(k): v for k, v in outcomes.items()}},
                                                dict(detail, request=power, calls=r["calls"], result=repr(r["result"])[:300]), ("pv-pool",)))
    return acc


def shard_fn(shard) -> Acc:
    kind, name, tier = shard
    if kind == "pv-concurrent":
        return pv_concurrent_shard(tier)
    acc = Acc()
    if kind == "battery":
        groups, not_working, no_data = battery_configs(tier)[name]
        live = [g for gi, g in enumerate(groups) if gi not in not_working and gi not in no_data]
        inv_ids = [100 * (gi + 1) + 10 + ii for gi, g in enumerate(groups) for ii in range(len(g.invs))
                   if gi not in not_working and gi not in no_data]
        reqs = battery_requests(live)
    else:
        invs = PV_SETS[name]
        inv_ids = [11 + k for k in range(len(invs))]
        reqs = PV_REQUESTS
    maxn = 3 if tier == "quick" else 4
    if len(inv_ids) > maxn:
        # all vectors over the first maxn inverters, the rest always ok
        vary = inv_ids[:maxn]
    else:
        vary = inv_ids
    strict = []
    if kind == "battery" and not any(isinstance(x, tuple) for x in not_working):
        # adjust_power=False: only requests inside the advertised bounds are processed at all
        for p_ in reqs:
            rs_ = [dist.ref_group(g, 1 if p_ > 0 else -1) for g in live]
            if sum(r_["adv_excl"] for r_ in rs_) - 1e-9 <= abs(p_) <= sum(r_["adv_incl"] for r_ in rs_) + 1e-9:
                strict.append(p_)
    for power, adjust in [(p_, True) for p_ in reqs] + [(p_, False) for p_ in strict]:
        for vec in itertools.product(mgr.OUTCOMES if adjust else ("ok", "client", "hang"), repeat=len(vary)):
            outcomes = dict(zip(vary, vec))
            if kind == "battery":
                r, viol = eval_battery(groups, power, outcomes, not_working, no_data, adjust)
                case = {"kind": kind, "config": name, "groups": [g.describe() for g in groups], "power": power,
                        "outcomes": {str(k): v for k, v in outcomes.items()}, "not_working": sorted(not_working),
                        "no_data": sorted(no_data), "adjust_power": adjust}
            else:
                r, viol = eval_pv(invs, power, outcomes)
                case = {"kind": kind, "config": name, "inverters": invs, "power": power,
                        "outcomes": {str(k): v for k, v in outcomes.items()}}
            acc.evaluations += 1
            acc.traces += 1
            acc.transitions += len(r["calls"]) + 1
            nfail = sum(1 for o in vec if mgr.outcome_fails(o))
            if nfail and len(r["calls"]) >= 2:
                acc.nontrivial += 1
            for c in CLAUSES:
                acc.clauses[c] += 1
            acc.outcome(f"{kind} {type(r['result']).__name__} failed_calls={nfail}")
            acc.state((kind, name, power, vec, adjust))
            if acc.evaluations % 400 == 1:
                acc.sample({"case": case, "set_power_calls": r["calls"], "result": repr(r["result"])[:400]})
            for clause, detail in viol:
                acc.violation(Violation(clause, case, dict(detail, calls=r["calls"], result=repr(r["result"])[:300]),
                                        (f"{kind}-pool",)))
    return acc


def run(tier: str, seed: int, workers: int):
    shards = [("battery", n, tier) for n in battery_configs(tier)] + [("pv", n, tier) for n in PV_SETS] + [("pv-concurrent", "two-pools", tier)]
    if seed:
        import random

        random.Random(seed).shuffle(shards)
    acc = pmap_acc(shard_fn, shards, workers)
    meta = {
        "rule": "for each configuration (battery: topologies incl. two inverters per battery, two batteries per inverter, "
        "a full group, exclusion bounds, a requested group that is reported as not working or has not sent data yet; PV: 1-4 inverters with different bounds) and each request from a derived menu "
        "(both signs, incl. surplus over the inclusion bound; battery requests inside the advertised bounds also with adjust_power=False "
        "over ok / client error / timeout), ALL 6^n outcome vectors (ok / OperationOutOfRange / "
        "ApiClientError / RuntimeError / no reply until timeout / success after 5.2 s with a request timeout of 5.5 s) over the set_power calls; each vector is run once on the "
        "real manager over the virtual loop; plus two PV requests for disjoint inverter sets with the second issued while the calls of the "
        "first are still awaited (ok / client error / slow / no reply); non-trivial = at least one failing call among >= 2 calls",
        "assumptions": [
            "ComponentPoolStatusTracker replaced by a stub reporting all requested components as working (C16 covers it)",
            "fake microgrid API client; virtual clock drives the 5.5 s request timeout",
            "'components addressed' = the batteries behind every inverter that received a set_power call",
        ],
        "exhaustive": True,
        "bounds": {"outcome_vectors": "6^n, n<=3 (quick) / n<=4 (thorough)", "battery_configs": list(battery_configs(tier)),
                   "pv_sets": list(PV_SETS)},
    }
    return acc, meta


def replay(case: dict):
    outcomes = {int(k): v for k, v in case["outcomes"].items()}
    if case["kind"] == "pv-concurrent":
        a = pv_concurrent_shard("quick")
        return [(v.clause, v.detail) for v in a.violations.values() if v.case == case]
    if case["kind"] == "battery":
        groups = [dist.group_from_json(g) for g in case["groups"]]
        r, viol = eval_battery(groups, case["power"], outcomes, case.get("not_working", ()), case.get("no_data", ()),
                               case.get("adjust_power", True))
    else:
        r, viol = eval_pv([tuple(x) for x in case["inverters"]], case["power"], outcomes)
    return [(c, dict(d, calls=r["calls"], result=repr(r["result"])[:300])) for c, d in viol]
