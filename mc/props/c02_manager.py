"""C02 through the real ``BatteryManager``: set-points vs the *latest* component data (E2).

The E3 part of C02 hands component data to the distribution algorithm directly.  The
manager in front of it keeps per-component caches of the data streams, so "that
inverter's inclusion bounds" means the bounds in the newest message the inverter sent.
This driver runs every history over {a battery reports new data, an inverter reports
new data, a request arrives} up to a depth on one manager instance over the fake API and
checks every admitted request's ``set_power`` calls against the data in force.
"""
from __future__ import annotations

import itertools
from dataclasses import replace
from datetime import timedelta
from types import SimpleNamespace

from .. import fakes
from ..core import Acc, Violation
from ..explore import pmap_acc
from . import dist, mgr

BASE_B = dist.BatSpec(soc=50.0, cap=1000.0, excl=0.0, incl=1000.0)
BASE_I = dist.InvSpec(excl=0.0, incl=1000.0)
BAT_V = {
    "normal": BASE_B,
    "tight": replace(BASE_B, incl=400.6),
    "full": replace(BASE_B, soc=80.0),
    "empty": replace(BASE_B, soc=20.0),
    "excl": replace(BASE_B, excl=100.4),
}
INV_V = {
    "normal": BASE_I,
    "tight": replace(BASE_I, incl=300.4),
    "excl": replace(BASE_I, excl=150.0),
}
REQS = (900.0, -900.0, 250.0, 100.4)
EVENTS = (
    [("bat", g, v) for g in (0, 1) for v in ("tight", "full", "excl", "normal")]
    + [("inv", g, v) for g in (0, 1) for v in ("tight", "excl", "normal")]
    + [("req", p) for p in REQS]
)
EVENTS_T = EVENTS + [("bat", 0, "empty"), ("bat", 1, "empty"), ("req", -250.0), ("req", 1900.0)]


def admitted(groups, power) -> bool:
    sign = 1 if power > 0 else -1
    rs = [dist.ref_group(g, sign) for g in groups]
    E = sum(r["adv_excl"] for r in rs)
    I = sum(r["adv_incl"] for r in rs)
    return E - 1e-9 <= abs(power) <= I + 1e-9


def run_history(hist):
    """Returns (violations, n_requests_checked, n_requests_out_of_domain)."""
    from . import c02

    groups = [dist.GroupSpec((BASE_B,), (BASE_I,)), dist.GroupSpec((BASE_B,), (BASE_I,))]
    viol = []
    checked = skipped = 0
    seq = 0
    with mgr.BatterySession(groups) as s:
        for k, e in enumerate(hist):
            if e[0] == "req":
                power = e[1]
                r = s.request(power)
                if r["error"]:
                    viol.append(("distribute_power_completes", {"event_index": k, "error": r["error"]}))
                    break
                if not dist.consistent(groups) or not admitted(groups, power):
                    skipped += 1
                    continue
                checked += 1
                res = SimpleNamespace(distribution={cid: w for cid, w in r["calls"]})
                pairs = dist.build_pairs(groups)
                for clause, detail in c02.oracle_c02(groups, 1.0, power, pairs, res):
                    viol.append((clause, dict(detail, event_index=k, request=power, calls=r["calls"])))
                if viol:
                    break
            else:
                kind, g, v = e
                seq += 1
                ts = fakes.T0 + timedelta(seconds=seq)
                if kind == "bat":
                    b = BAT_V[v]
                    groups[g] = dist.GroupSpec((b,), groups[g].invs)
                    s.api.push(fakes.bat(100 * (g + 1), ts=ts, soc=b.soc, cap=b.cap, il=-b.incl, el=-b.excl, eu=b.excl, iu=b.incl,
                                         sl=b.sl, su=b.su))
                else:
                    i = INV_V[v]
                    groups[g] = dist.GroupSpec(groups[g].bats, (i,))
                    s.api.push(fakes.inv(100 * (g + 1) + 10, ts=ts, il=-i.incl, el=-i.excl, eu=i.excl, iu=i.incl))
                s.loop.settle()
    return viol, checked, skipped


def shard(args) -> Acc:
    tier, prefix, depth = args
    from . import c02

    acc = Acc()
    ev = EVENTS if tier == "quick" else EVENTS_T
    reqs = [e for e in ev if e[0] == "req"]
    for tail in itertools.product(ev, repeat=depth):
        for last in reqs:
            hist = list(prefix) + list(tail) + [last]
            viol, checked, skipped = run_history(hist)
            acc.evaluations += 1
            acc.traces += 1
            acc.transitions += len(hist)
            acc.states += 1
            acc.counters["manager_requests_checked"] += checked
            acc.counters["manager_requests_outside_advertised_bounds"] += skipped
            for c in c02.CLAUSES:
                acc.clauses[c] += checked
            nreq = sum(1 for e in hist if e[0] == "req")
            if nreq >= 2 and any(e[0] != "req" for e in hist):
                acc.nontrivial += 1
            acc.outcome(f"manager-history requests={nreq} checked={checked}")
            for clause, detail in viol:
                acc.violation(Violation(clause, {"driver": "manager-history", "history": [list(e) for e in hist]}, detail))
    return acc


def run(tier, seed, workers) -> Acc:
    ev = EVENTS if tier == "quick" else EVENTS_T
    if tier == "quick":
        shards = [(tier, [e1], 2) for e1 in ev]  # 3 events + a final request
    else:
        shards = [(tier, [e1, e2], 2) for e1 in ev for e2 in ev]  # 4 events + a final request
    return pmap_acc(shard, shards, workers)


def replay(case):
    viol, _, _ = run_history([tuple(e) for e in case["history"]])
    return viol
