"""C10 — actors restart after failures, only after failures, and stop cleanly (E1).

A scripted probe ``Actor`` (each ``_run`` invocation follows a script: await points, an
outcome, a reaction to cancellation) is driven on the virtual loop; ``start`` / ``cancel``
/ ``stop`` / ``wait`` are environment events placed at every quiescent point (and, as
deviations, between two loop iterations).  Oracles are invariants over the recorded
trace.
"""
from __future__ import annotations

import asyncio
import itertools

from frequenz.sdk.actor import Actor, run as run_actors

from ..core import Acc
from ..explore import Chooser, Observation, determinism_selfcheck, explore, replay_choices
from ..vloop import Stall, virtual_loop

PID = "C10"
HORIZON = 14.0


PROBE_RESTART_DELAY = __import__("datetime").timedelta(seconds=1.5)


class BaseErr(BaseException):
    """A BaseException that is not an Exception (and not a cancellation)."""


def make_probe(scripts, log, extra_mode, restart_limit):
    class Probe(Actor):
        _restart_limit = restart_limit
        RESTART_DELAY = PROBE_RESTART_DELAY  # overridden with a value that has a fractional part

        def __init__(self):
            super().__init__(name="probe")
            self.inv = 0
            self.active = 0
            self.extra_tasks = []

        async def _extra(self, mode):
            try:
                await asyncio.get_running_loop().create_future()
            except asyncio.CancelledError:
                if mode == "extra-raises":
                    raise RuntimeError("extra task failed while being cancelled")
                if mode == "extra-slow":
                    await asyncio.sleep(0.5)  # needs some time to clean up after being cancelled
                raise

        async def _run(self):
            loop = asyncio.get_running_loop()
            i = self.inv
            self.inv += 1
            n_awaits, outcome, on_cancel = scripts[i] if i < len(scripts) else (0, "ret", "propagate")
            self.active += 1
            log.append(("run_start", i, loop.time(), self.active, i >= len(scripts)))
            how = "?"
            err = [None]

            def spawn_extra():
                t = asyncio.create_task(self._extra("extra-raises" if extra_mode.endswith("raises") else
                                                    ("extra-slow" if extra_mode == "extra-slow" else "extra-ends")))
                self.extra_tasks.append(t)
                self._tasks.add(t)

            try:
                if extra_mode in ("extra-ends", "extra-raises", "extra-slow") and i == 0:
                    spawn_extra()
                try:
                    for _ in range(n_awaits):
                        await asyncio.sleep(1.0)
                    if extra_mode.startswith("extra-late") and i == 0:
                        spawn_extra()  # registered late: after the first await point(s), just before the outcome
                    if outcome == "hang":
                        await loop.create_future()
                    elif outcome == "exc":
                        how = "exc"
                        err[0] = RuntimeError(f"run {i} failed")
                        raise err[0]
                    elif outcome == "base":
                        how = "base"
                        err[0] = BaseErr()
                        raise err[0]
                    how = "ret"
                    return
                except asyncio.CancelledError:
                    if on_cancel == "swallow":
                        how = "cancel-swallowed"
                        return
                    if on_cancel == "raise":
                        how = "cancel-raised-exception"
                        err[0] = RuntimeError(f"run {i}: cleanup failed")
                        raise err[0]  # noqa: B904
                    how = "cancelled"
                    raise
            finally:
                self.active -= 1
                log.append(("run_end", i, loop.time(), how, err[0]))

    return Probe()


def flatten(exc):
    if isinstance(exc, BaseExceptionGroup):
        out = []
        for e in exc.exceptions:
            out += flatten(e)
        return out
    return [exc]


def make_scenario(scripts, restart_limit, extra_mode, max_controls):
    delay = PROBE_RESTART_DELAY.total_seconds()

    def scenario(ch: Chooser) -> Observation:
        obs = Observation()
        log = []
        with virtual_loop() as loop:
            actor = make_probe(scripts, log, extra_mode, restart_limit)
            calls = []  # control calls: dict(kind, t, task, snapshot)
            budget = [max_controls]
            started_once = [False]

            def snapshot():
                return set(actor.tasks)

            def controls():
                if budget[0] <= 0:
                    return []
                return ["start", "cancel", "stop", "wait"] if started_once[0] else ["start", "stop", "cancel"]

            async def deferred(kind, rec):
                # stop()/wait() are coroutines: they take effect when they start executing, which is
                # one loop iteration after the caller created the task
                rec["t"] = loop.time()
                rec["snapshot"] = snapshot()
                rec["seq"] = len(log)
                log.append(("control", kind, loop.time(), bool(rec.get("final"))))
                if rec.get("final"):
                    await actor.__aexit__(None, None, None)  # the final stop is the exit of an `async with actor:` block
                else:
                    await (actor.stop() if kind == "stop" else actor.wait())

            def do(kind):
                budget[0] -= 1
                rec = {"kind": kind, "t": loop.time(), "task": None, "snapshot": snapshot(), "seq": len(log)}
                if kind in ("stop", "wait"):
                    rec["task"] = loop.create_task(deferred(kind, rec))
                    rec["task"].add_done_callback(
                        lambda _t, rec=rec: rec.__setitem__("done_later", {x for x in rec["snapshot"] if not x.done()}))
                    calls.append(rec)
                    return
                log.append(("control", kind, loop.time()))
                if kind == "start":
                    rec["was_running"] = actor.is_running
                    if not rec["was_running"]:
                        log.append(("epoch", loop.time()))
                    actor.start()
                    started_once[0] = True
                elif kind == "cancel":
                    actor.cancel()
                calls.append(rec)

            all_tasks_seen = set()

            def note_tasks():
                all_tasks_seen.update(actor.tasks)
                for c in calls:
                    if c["task"] is not None and not c["task"].done() and not any(e[0] == "epoch" for e in log[c["seq"]:]):
                        # tasks added late, while stop()/wait() is pending (but not those of a new incarnation
                        # started by a concurrent start(): that race is outside the property)
                        c["snapshot"] |= set(actor.tasks)

            # first event is always a start unless a control is chosen before it
            stalled = False
            hung_stops = []
            try:
                while True:
                    while not loop.quiescent():
                        opts = controls()
                        if opts:
                            c = ch.choose(1 + len(opts), ("mid", tuple(opts)), dev=True)
                            if c > 0:
                                do(opts[c - 1])
                        loop.run_iteration()
                        note_tasks()
                    note_tasks()
                    nt = loop.next_timer()
                    base = "advance" if (nt is not None and nt <= HORIZON) else "end"
                    if not started_once[0] and budget[0] == max_controls:
                        opts = ["start", "stop", "cancel"]  # the very first decision: what happens before/at start
                        c = ch.choose(len(opts), ("first", tuple(opts)))
                        do(opts[c])
                        budget[0] += 1 if opts[c] == "start" else 0  # the initial start is free
                        continue
                    opts = [base] + controls()
                    c = ch.choose(len(opts), ("at-quiescence", tuple(opts)))
                    if opts[c] == "advance":
                        loop.set_time(nt)
                    elif opts[c] == "end":
                        break
                    else:
                        do(opts[c])
                # a stop() issued earlier that is still pending although nothing can happen any more
                # (quiescent, no timer left) will never return on its own
                hung_stops = [c for c in calls if c["kind"] == "stop" and not c["task"].done() and loop.next_timer() is None
                              and not any(e[0] == "epoch" for e in log[c["seq"]:])]  # unless the actor was started again meanwhile
                # final stop, as every user of an actor eventually does
                final = {"kind": "stop", "t": loop.time(), "task": None, "snapshot": snapshot(), "seq": len(log), "final": True}
                final["task"] = loop.create_task(deferred("stop", final))
                calls.append(final)
                loop.settle()
                note_tasks()
                t_end = loop.time() + 3 * delay + 4
                while any(c["task"] is not None and not c["task"].done() for c in calls):
                    nt = loop.next_timer()
                    if nt is None or nt > t_end:
                        break
                    loop.set_time(nt)
                    loop.settle()
                    note_tasks()
            except Stall:
                stalled = True

            viol = []
            C = obs.clauses
            if stalled:
                viol.append(("execution_terminates", {"log": log[-6:]}))
            else:
                C["stop_returns"] = C.get("stop_returns", 0) + 1
                for c in hung_stops:
                    viol.append(("stop_returns", {"called_at": c["t"], "still_pending_at": loop.time(), "log_tail": log[-6:]}))
            # --- trace invariants ---------------------------------------------
            epoch_cancel_requested = False
            restarts = 0
            prev_end = None  # (how, t, cancel requested before it ended)
            for ev in log:
                if ev[0] == "epoch":
                    epoch_cancel_requested = False
                    restarts = 0
                    prev_end = None
                    continue
                if ev[0] == "control":
                    if ev[1] in ("cancel", "stop"):
                        epoch_cancel_requested = True
                    continue
                if ev[0] == "run_start":
                    _, i, t, active, overflow = ev
                    C["never_two_runs_at_once"] = C.get("never_two_runs_at_once", 0) + 1
                    if active > 1:
                        viol.append(("never_two_runs_at_once", {"invocation": i, "t": t}))
                    if prev_end is None:
                        continue
                    how, t_prev, _ = prev_end
                    C["reinvoked_only_after_exception"] = C.get("reinvoked_only_after_exception", 0) + 1
                    if how not in ("exc", "cancel-raised-exception"):
                        viol.append(("reinvoked_only_after_exception", {"invocation": i, "previous_ended": how}))
                    elif epoch_cancel_requested or how == "cancel-raised-exception":
                        viol.append(("never_reinvoked_after_cancellation", {"invocation": i, "previous_ended": how, "t": t}))
                    else:
                        restarts += 1
                        C["restart_limit_respected"] = C.get("restart_limit_respected", 0) + 1
                        if restart_limit is not None and restarts > restart_limit:
                            viol.append(("restart_limit_respected", {"restarts": restarts, "limit": restart_limit}))
                        C["restart_delay_respected"] = C.get("restart_delay_respected", 0) + 1
                        if t < t_prev + delay - 1e-9:
                            viol.append(("restart_delay_respected", {"failed_at": t_prev, "restarted_at": t}))
                elif ev[0] == "run_end":
                    prev_end = (ev[3], ev[2], epoch_cancel_requested)
            # liveness of the restart: an exception without cancellation and below the limit is followed by a run
            ends = [(k, e) for k, e in enumerate(log) if e[0] == "run_end"]
            for k, e in ends:
                if e[3] != "exc":
                    continue
                ep_start = max([kk for kk, x in enumerate(log[:k]) if x[0] == "epoch"], default=0)
                cancel_before = any(x[0] == "control" and x[1] in ("cancel", "stop") for x in log[ep_start:k])
                # (the final stop() is only issued once no timer is left, so it cannot pre-empt a pending restart)
                later_cancel = [x for x in log[k:] if x[0] == "control" and x[1] in ("cancel", "stop") and not (len(x) > 3 and x[3])]
                n_prior_restarts = sum(1 for kk, ee in ends if ep_start <= kk < k and ee[3] == "exc")
                if cancel_before or (restart_limit is not None and n_prior_restarts >= restart_limit):
                    continue
                if later_cancel and later_cancel[0][2] <= e[2] + delay + 1e-9:
                    continue  # cancelled during (or exactly at the end of) the restart delay
                if e[2] + delay > HORIZON:
                    continue
                C["reinvoked_after_every_exception"] = C.get("reinvoked_after_every_exception", 0) + 1
                if not any(x[0] == "run_start" for x in log[k:]):
                    viol.append(("reinvoked_after_every_exception", {"failed_at": e[2], "log_tail": log[k:][:6]}))
            # start() on an actor that is not running invokes the run logic at once (unless it is cancelled first)
            for k, e in enumerate(log):
                if e[0] != "epoch":
                    continue
                nxt = next((x for x in log[k + 1:] if x[0] == "run_start" or (x[0] == "control" and x[1] in ("cancel", "stop"))), None)
                C["start_invokes_run_logic"] = C.get("start_invokes_run_logic", 0) + 1
                if nxt is None or (nxt[0] == "run_start" and nxt[2] > e[1] + 1e-9):
                    viol.append(("start_invokes_run_logic", {"started_at": e[1], "next": None if nxt is None else list(map(str, nxt[:3]))}))
            # --- stop()/wait() ---------------------------------------------------
            # errors count as surfaced when some stop()/wait() call raised them (the first waiter consumes them)
            surfaced_all = []
            for c in calls:
                t = c["task"]
                if t is not None and t.done() and not t.cancelled() and t.exception() is not None:
                    surfaced_all += flatten(t.exception())
            for c in calls:
                t = c["task"]
                if t is None:
                    continue
                if c["kind"] == "stop":
                    C["stop_returns"] = C.get("stop_returns", 0) + 1
                    if not t.done():
                        viol.append(("stop_returns", {"called_at": c["t"], "log_tail": log[-5:]}))
                        continue
                if not t.done():
                    continue
                exc = None if t.cancelled() else t.exception()
                surfaced = flatten(exc) if exc is not None else []
                if c["kind"] == "wait" and exc is None and not t.cancelled():
                    C["wait_returns_only_when_all_tasks_finished"] = C.get("wait_returns_only_when_all_tasks_finished", 0) + 1
                    not_done = [x for x in c["snapshot"] if not x.done() or x in c.get("done_later", ())]
                    if not_done:
                        viol.append(("wait_returns_only_when_all_tasks_finished", {"unfinished": len(not_done), "called_at": c["t"]}))
                if c["kind"] == "stop":
                    C["stop_waits_for_all_tasks"] = C.get("stop_waits_for_all_tasks", 0) + 1
                    not_done = [x for x in c["snapshot"] if not x.done()]
                    if not_done:
                        viol.append(("stop_waits_for_all_tasks", {"unfinished": len(not_done)}))
                    C["stop_surfaces_task_errors"] = C.get("stop_surfaces_task_errors", 0) + 1
                    for x in c["snapshot"]:
                        if x.done() and not x.cancelled() and x.exception() is not None:
                            if not any(x.exception() is s for s in surfaced_all):
                                viol.append(("stop_surfaces_task_errors", {"lost": repr(x.exception())}))
                    if any(isinstance(s, asyncio.CancelledError) for s in surfaced):
                        viol.append(("stop_does_not_surface_cancellations", {"surfaced": [repr(s) for s in surfaced]}))
            # after the final stop() nothing the service ever registered is left running
            C["nothing_left_running_after_final_stop"] = C.get("nothing_left_running_after_final_stop", 0) + 1
            fin = [c for c in calls if c.get("final")]
            if fin and fin[0]["task"].done():
                left = [x for x in all_tasks_seen if not x.done()]
                if left:
                    viol.append(("nothing_left_running_after_final_stop", {"still_running": len(left)}))
            # the exception that ended the actor for good is surfaced by some stop()/wait() call,
            # unless a later start() began a new incarnation before anybody waited
            ends_ = [(k, e) for k, e in enumerate(log) if e[0] == "run_end"]
            for k, e in ends_:
                if e[4] is None:
                    continue
                nxt = [x for x in log[k + 1:] if x[0] in ("run_start", "epoch")]
                if nxt:
                    continue  # restarted (or a new incarnation): not the final error
                if e[3] == "exc":
                    ep_start = max([kk for kk, x in enumerate(log[:k]) if x[0] == "epoch"], default=0)
                    n_prior = sum(1 for kk, ee in ends_ if ep_start <= kk < k and ee[3] == "exc")
                    cancelled_before = any(x[0] == "control" and x[1] in ("cancel", "stop") for x in log[ep_start:k])
                    if not cancelled_before and (restart_limit is None or n_prior < restart_limit):
                        continue  # a restart was pending (and then cancelled): the failure had been handled
                C["final_run_error_surfaced"] = C.get("final_run_error_surfaced", 0) + 1
                if not any(e[4] is s_ for s_ in surfaced_all):
                    viol.append(("final_run_error_surfaced", {"error": repr(e[4]), "how": e[3]}))
            for t in all_tasks_seen:
                if t.done() and not t.cancelled():
                    t.exception()  # retrieved; keeps the loop's handler quiet
            obs.violations = viol
            obs.events = sum(1 for e in log if e[0] == "control") + sum(1 for e in log if e[0] == "run_start")
            obs.outcome = repr(tuple((e[0], e[1]) if e[0] in ("control", "epoch") else (e[0], e[3] if e[0] == "run_end" else e[1]) for e in log))
            obs.nontrivial = sum(1 for e in log if e[0] == "run_start") >= 2 or any(
                e[0] == "run_end" and e[3].startswith("cancel") for e in log)
            obs.state_keys = [obs.outcome]
            obs.sample = {"scripts": scripts, "restart_limit": restart_limit, "extra": extra_mode,
                          "trace": [list(map(str, e[:4])) for e in log]}
        return obs

    return scenario


def scripts_menu(tier):
    first = [(n, o, c) for n in (0, 1) for o in ("ret", "exc", "base", "hang") for c in ("propagate", "swallow", "raise")
             if not (n == 0 and o != "hang" and c != "propagate")]
    second = [(1, o, c) for o in ("ret", "exc", "hang") for c in ("propagate", "raise")]
    third = [(0, "ret", "propagate"), (0, "hang", "propagate")] if tier == "quick" else [
        (0, "ret", "propagate"), (0, "hang", "propagate"), (1, "exc", "raise")]
    out = []
    for r1 in first:
        if r1[1] != "exc":
            out.append([r1])
            continue
        for r2 in second:
            if r2[1] != "exc":
                out.append([r1, r2])
            else:
                for r3 in third:
                    out.append([r1, r2, r3])
    return out


def configs(tier):
    limits = [0, 1, None] if tier == "quick" else [0, 1, 2, None]
    extras = ["none", "extra-ends", "extra-raises", "extra-late-ends", "extra-late-raises", "extra-slow"]
    out = []
    for sc in scripts_menu(tier):
        for lim in limits:
            for ex in extras:
                if tier == "quick" and ex != "none" and len(sc) > 1:
                    continue
                out.append((sc, lim, ex))
    return out


def _mkcase(cfg, max_controls):
    sc, lim, ex = cfg
    return lambda choices: {"scripts": [list(x) for x in sc], "restart_limit": lim, "extra": ex,
                            "max_controls": max_controls, "choices": list(choices)}


def shard(args) -> Acc:
    tier, lo, hi, bound, max_controls = args
    acc = Acc()
    for cfg in configs(tier)[lo:hi]:
        sc = make_scenario(cfg[0], cfg[1], cfg[2], max_controls)
        a = explore(sc, bound, _mkcase(cfg, max_controls), workers=1)
        acc.merge(a)
    return acc


# -- run(*actors) ------------------------------------------------------------------


def run_group_scenario(ch: Chooser, scripts_a, scripts_b, prestart=""):
    """``prestart``: which of the two actors is already running when it is handed to run()."""
    obs = Observation()
    log = []
    with virtual_loop() as loop:
        a = make_probe(scripts_a, log, "none", 0)
        b = make_probe(scripts_b, log, "none", 0)
        if "a" in prestart:
            a.start()
        if "b" in prestart:
            b.start()
        if prestart:
            loop.settle()
        t = loop.create_task(run_actors(a, b))
        returned_at = [None]
        t.add_done_callback(lambda _t: returned_at.__setitem__(0, loop.time()))
        viol = []
        used = set()
        while True:
            loop.settle()
            if t.done():
                break
            nt = loop.next_timer()
            opts = ["advance" if nt is not None and nt <= HORIZON else "end"] + [x for x in ("cancel-a", "cancel-b") if x not in used]
            c = ch.choose(len(opts), ("run-group", tuple(opts)))
            if opts[c] == "advance":
                loop.set_time(nt)
            elif opts[c] == "end":
                break
            elif opts[c] == "cancel-a":
                used.add("cancel-a")
                a.cancel()
            else:
                used.add("cancel-b")
                b.cancel()
            both_done = not a.is_running and not b.is_running
            loop.settle()
            obs.clauses["run_returns_exactly_when_all_finished"] = obs.clauses.get("run_returns_exactly_when_all_finished", 0) + 1
            both_done = not a.is_running and not b.is_running
            if t.done() != both_done:
                viol.append(("run_returns_exactly_when_all_finished", {"run_done": t.done(), "actors_done": both_done, "t": loop.time()}))
        for x in (a, b):
            x.cancel()
        loop.settle()
        obs.violations = viol
        obs.events = len(log)
        obs.outcome = repr(("group", tuple((e[0], e[1]) for e in log)))
        obs.nontrivial = True
        obs.state_keys = [obs.outcome]
    return obs


GROUP_SCRIPTS = [[(1, "ret", "propagate")], [(0, "ret", "propagate")], [(1, "exc", "propagate")], [(1, "hang", "propagate")],
                 [(1, "hang", "swallow")], [(1, "base", "propagate")], [(1, "hang", "raise")]]


def group_shard(_):
    acc = Acc()
    for sa, sb_, pre in itertools.product(GROUP_SCRIPTS, GROUP_SCRIPTS, ("", "a", "b", "ab")):
        sc = lambda ch, sa=sa, sb_=sb_, pre=pre: run_group_scenario(ch, sa, sb_, pre)  # noqa: E731
        a = explore(sc, 0, lambda choices, sa=sa, sb_=sb_, pre=pre: {"driver": "run-group", "a": [list(x) for x in sa],
                                                                     "b": [list(x) for x in sb_], "prestart": pre,
                                                                     "choices": list(choices)}, workers=1)
        acc.merge(a)
    return acc


def _dispatch(args):
    return group_shard(None) if args[0] == "group" else shard(args[1:])


def run(tier: str, seed: int, workers: int):
    from ..explore import pmap_acc

    cfgs = configs(tier)
    bound = 1
    max_controls = 2 if tier == "quick" else 3
    determinism_selfcheck(make_scenario(cfgs[5][0], cfgs[5][1], cfgs[5][2], max_controls))
    step = 6
    shards = [("probe", tier, lo, lo + step, bound, max_controls) for lo in range(0, len(cfgs), step)] + [("group",)]
    if seed:
        import random

        random.Random(seed).shuffle(shards)
    acc = pmap_acc(_dispatch, shards, workers)
    meta = {
        "rule": "for every script (sequence of up to 3 _run invocations: 0/1 await points, outcome return / raise Exception / raise "
        "BaseException / wait to be cancelled, reaction to cancellation propagate / swallow-and-return / raise in cleanup), every "
        "restart limit and extra-task mode: every placement of up to 2 (quick) / 3 (thorough) control events start/cancel/stop/wait "
        "at the quiescent points of the execution (before start, during a run, during the restart delay, after completion, "
        "repeated), plus placement between two loop iterations as deviation (thorough); then a final stop().  Non-trivial = at "
        "least two _run invocations or a run that was cancelled.  Plus run(a, b) for 7x7 script pairs with cancellations.",
        "assumptions": [
            "virtual clock; RESTART_DELAY overridden on the probe class with 1.5 s (a public class attribute; a value with a fractional part); horizon 14 s",
            "a stop() that has not returned once no timer is left within 3 restart delays counts as 'never returns'",
            "errors must be surfaced for the tasks registered when stop() is called or added while it is pending",
        ],
        "exhaustive": True,
        "bounds": {"configs": len(cfgs), "max_controls": max_controls, "deviation_bound": bound},
    }
    return acc, meta


def replay(case: dict):
    if case.get("driver") == "run-group":
        obs = replay_choices(lambda ch: run_group_scenario(ch, [tuple(x) for x in case["a"]], [tuple(x) for x in case["b"]],
                                                           case.get("prestart", "")),
                             case["choices"], case.get("labels"))
        return obs.violations
    sc = make_scenario([tuple(x) for x in case["scripts"]], case["restart_limit"], case["extra"], case["max_controls"])
    return replay_choices(sc, case["choices"], case.get("labels")).violations
