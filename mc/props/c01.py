"""C01 — battery power distribution conserves the requested power (E3; manager part E1).

C02 shares the enumeration (see ``dist.py``); each property has its own oracle, run and
evidence file.
"""
from __future__ import annotations

import itertools
import math

from ..core import Acc, Violation
from ..explore import pmap_acc
from . import dist

PID = "C01"


def oracle_c01(groups, exponent, power, pairs, res):
    """Returns list of (clause, detail)."""
    v = []
    sgn = 1 if power > 0 else -1
    total = sum(res.distribution.values()) + res.remaining_power
    tol = 1e-6 * max(1.0, abs(power))
    if not abs(total - power) <= tol:
        v.append(("sum_plus_remainder_equals_request", {"sum": total, "request": power}))
    for k, x in res.distribution.items():
        if x * sgn < -1e-9 or math.isnan(x):
            v.append(("setpoint_sign", {"inverter": k, "value": x}))
            break
    r = res.remaining_power
    if r * sgn < -1e-9 or abs(r) > abs(power) + tol or math.isnan(r):
        v.append(("remainder_sign_and_magnitude", {"remainder": r, "request": power}))
    expected_ids = {i.component_id for _, invs in pairs for i in invs}
    if set(res.distribution) != expected_ids:
        v.append(("every_inverter_has_a_setpoint", {"got": sorted(res.distribution), "expected": sorted(expected_ids)}))
    return v


CLAUSES_C01 = ["sum_plus_remainder_equals_request", "setpoint_sign", "remainder_sign_and_magnitude",
               "every_inverter_has_a_setpoint"]


def configs(tier: str):
    """Yield shards: each shard is (ngroups, index of first group spec)."""
    m = dist.menus(tier)
    first = dist.group_specs(m)
    shards = []
    for n in m["ngroups"]:
        for i in range(len(first)):
            shards.append((tier, n, i))
    return shards


def other_specs(tier: str, n: int):
    """Menu of the 2nd (and 3rd) group: reduced so the product stays enumerable."""
    m = dict(dist.menus(tier))
    if tier == "quick" and n == 3:
        m.update(shape=[(1, 1)], soc=[20.0, 40.0, 80.0], cap=[1000.0], bexcl=[0.0, 100.0], bincl=[500.0],
                 iexcl=[0.0, 200.0], iincl=[1000.0])
    elif tier == "quick":
        m.update(shape=[(1, 1), (1, 2)], soc=[20.0, 40.0, 80.0], cap=[1000.0], bexcl=[0.0, 300.0],
                 bincl=[500.0], iexcl=[0.0, 200.0], iincl=[1000.0])
    elif n == 2:
        m.update(shape=[(1, 1), (1, 2), (2, 1)], soc=[20.0, 40.0, 80.0, 90.0], cap=[1000.0],
                 bexcl=[0.0, 300.0], bincl=[500.0], iexcl=[0.0, 200.0], iincl=[400.0, 1000.0],
                 lower_scale=[1.0])
    else:
        m.update(shape=[(1, 1)], soc=[20.0, 60.0, 80.0], cap=[1000.0], bexcl=[0.0, 300.0], bincl=[500.0],
                 iexcl=[0.0, 200.0], iincl=[1000.0], lower_scale=[1.0])
    return dist.group_specs(m)


def first_specs(tier: str, n: int):
    m = dict(dist.menus(tier))
    if n == 3 and tier == "quick":
        m.update(shape=[(1, 1)], soc=[20.0, 40.0, 80.0], cap=[1000.0], bexcl=[0.0, 100.0, 300.0],
                 bincl=[500.0], iexcl=[0.0, 200.0], iincl=[1000.0], lower_scale=[1.0])
    elif n == 3:
        m.update(shape=[(1, 1), (1, 2)], soc=[20.0, 40.0, 80.0], cap=[1000.0, 3000.0], bexcl=[0.0, 100.0, 300.0],
                 bincl=[500.0, 1000.0], iexcl=[0.0, 200.0], iincl=[400.0, 1000.0], lower_scale=[1.0])
    return dist.group_specs(m)


def iter_cases(shard):
    tier, n, i = shard
    m = dist.menus(tier)
    first = first_specs(tier, n)
    if i >= len(first):
        return
    g0 = first[i]
    others = other_specs(tier, n) if n > 1 else []
    if n == 1:
        combos = [()]
    elif n == 2:
        combos = [(g,) for g in others]
    else:
        combos = list(itertools.combinations_with_replacement(others, 2))
    exps = m["exponents"] if n < 3 else m["exponents"][:2]
    for rest in combos:
        groups = [g0, *rest]
        pairs = dist.build_pairs(groups)
        for exponent in exps:
            for sign in (1, -1):
                for p in dist.request_menu(groups, exponent, sign, boundary=True):
                    yield groups, exponent, sign * p, pairs


def make_shard_fn(oracle, clauses):
    def run_shard(shard) -> Acc:
        acc = Acc()
        seen_outcomes = acc.outcomes
        for groups, exponent, power, pairs in iter_cases(shard):
            pairs, res = dist.evaluate(groups, exponent, power, pairs)
            acc.evaluations += 1
            acc.transitions += 1
            acc.traces += 1
            nt = dist.nontrivial(groups, exponent, power)
            if nt:
                acc.nontrivial += 1
            for c in clauses:
                acc.clauses[c] += 1
            viol = oracle(groups, exponent, power, pairs, res)
            kind = "remainder" if abs(res.remaining_power) > 1e-9 else "full"
            used = sum(1 for x in res.distribution.values() if abs(x) > 1e-9)
            seen_outcomes[f"n={len(groups)} {kind} inverters_used={used} {'nontrivial' if nt else 'plain'}"] += 1
            if acc.evaluations % 50000 == 1:
                acc.sample({"case": dist.case_json(groups, exponent, power),
                            "distribution": dict(res.distribution), "remainder": res.remaining_power})
            for clause, detail in viol:
                detail = dict(detail, distribution=dict(res.distribution), remainder=res.remaining_power)
                acc.violation(Violation(clause, dict(dist.case_json(groups, exponent, power), driver="algorithm"),
                                        detail, dist.input_classes(groups, exponent, power)))
        acc.states = acc.evaluations
        return acc

    return run_shard


_shard_c01 = make_shard_fn(oracle_c01, CLAUSES_C01)


def run_c01_shard(shard):
    return _shard_c01(shard)


RULE = (
    "cartesian product of group descriptors (k batteries behind m inverters; SoC at/inside/beyond its limits; "
    "capacities; battery and inverter exclusion/inclusion bounds) x exponents x both signs x a request menu "
    "derived per configuration from its thresholds (advertised exclusion bound E, E+1, sum of minimum powers, "
    "each power at which a group's share equals its minimum power or its inclusion bound +-1, I-1, I, I+50, 2I+10); "
    "each case is generated once; non-trivial = >= 2 groups with a group in the deficit regime or clipped at its "
    "inclusion bound"
)
ASSUMPTIONS = [
    "decided on the stated grid of values only (continuous inputs outside the grid are not covered)",
    "requests below the pool's advertised exclusion bound are outside the property's domain and skipped",
    "consistent data only: 0 <= excl <= incl per component, group minimum power <= group inclusion bound",
    "frequenz.client.microgrid dataclasses are trusted",
]


def run(tier: str, seed: int, workers: int):
    shards = configs(tier)
    shards = [s for s in shards if s[2] < len(first_specs(tier, s[1]))]
    if seed:
        import random

        random.Random(seed).shuffle(shards)
    acc = pmap_acc(run_c01_shard, shards, workers)
    from . import c01_manager

    acc.merge(c01_manager.run(tier, seed, workers))
    meta = {
        "rule": RULE,
        "assumptions": ASSUMPTIONS,
        "exhaustive": True,
        "bounds": {"groups": dist.menus(tier)["ngroups"], "menus": {k: v for k, v in dist.menus(tier).items()}},
    }
    return acc, meta


def replay(case: dict):
    if case.get("driver") == "manager":
        from . import c01_manager

        return c01_manager.replay(case)
    groups, exponent, power = dist.case_from_json(case)
    pairs, res = dist.evaluate(groups, exponent, power)
    out = oracle_c01(groups, exponent, power, pairs, res)
    return [(c, dict(d, distribution=dict(res.distribution), remainder=res.remaining_power)) for c, d in out]
