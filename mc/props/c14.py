"""C14 — power requests for a component group are applied one at a time, latest wins.

E1: the real ``PowerDistributingActor`` on the virtual loop; the component manager it
instantiates is replaced (harness side) by a probe whose ``distribute_power`` completes
when, and how, the environment decides.
"""
from __future__ import annotations

import asyncio
import collections
from datetime import timedelta

from frequenz.channels import Broadcast
from frequenz.client.microgrid import ComponentCategory
from frequenz.quantities import Power

from frequenz.sdk.microgrid._power_distributing import power_distributing as pd
from frequenz.sdk.microgrid._power_distributing.request import Request

from ..explore import Chooser, Observation, determinism_selfcheck, explore, replay_choices
from ..vloop import virtual_loop

PID = "C14"

# (power, group); a request is identified by its position in the list (the Request object the probe receives is
# mapped back to it), so powers may repeat
REQS = {
    "rep": [(100, (1,)), (200, (1,)), (100, (1,)), (300, (2,))],
    # two different groups that share a component
    "ovl": [(100, (1, 2)), (200, (2, 3)), (300, (1, 2)), (400, (2, 3))],
    # one group whose id set is built in different insertion orders (8 and 16 share a hash slot, so the two sets
    # iterate differently although they are equal)
    # a distribution that takes longer than twice the API request timeout (the clock advances 11 s once)
    "slow": [(100, (1,)), (200, (1,)), (300, (1,))],
    # wired up by the public PowerWrapper (its own request channel and receiver); requests may also be issued two at a time,
    # back to back in one event-loop turn
    "wrap": [(100, (1,)), (200, (2,)), (300, (1,)), (400, (2,))],
    "ord": [(100, (8, 16)), (200, (16, 8)), (300, (8, 16)), (400, (16, 8))],
    "rep2": [(100, (1,)), (200, (1,)), (100, (1,)), (200, (1,)), (100, (1,))],
    "q": [(100, (1,)), (200, (1,)), (300, (2,)), (400, (1,))],
    "t": [(100, (1,)), (200, (1,)), (300, (2,)), (400, (1,)), (500, (2,)), (600, (1,))],
    "q2": [(100, (1,)), (200, (1,)), (300, (1,)), (400, (2,)), (500, (2,))],
}


def _ordered_set(ids):
    s = set()
    for i in ids:  # insertion order is part of the plan
        s.add(i)
    return s


def _maybe_microgrid(on):
    """A fake microgrid with one battery (the PowerWrapper only starts the distributor when the graph has batteries)."""
    import contextlib

    if not on:
        return contextlib.nullcontext()
    from frequenz.client.microgrid import Component, Connection, InverterType

    from .. import fakes

    comps = {Component(1, ComponentCategory.GRID), Component(2, ComponentCategory.METER),
             Component(8, ComponentCategory.INVERTER, InverterType.BATTERY), Component(9, ComponentCategory.BATTERY)}
    return fakes.fake_microgrid(comps, {Connection(1, 2), Connection(2, 8), Connection(8, 9)})


class ProbeManager:
    """Stands in for BatteryManager: records enter/exit, completes as the env decides."""

    current: "ProbeManager | None" = None
    chooser: Chooser | None = None
    instant_modes = False
    ident = None  # Request object -> identity (set by the scenario)

    def __init__(self, *a, **k):
        ProbeManager.current = self
        self.calls: list[dict] = []
        self.active: dict[frozenset, int] = {}
        self.viol: list = []
        self.epoch = 0

    def component_ids(self):
        return {1, 2, 3, 8, 16}

    async def start(self):
        pass

    async def stop(self):
        pass

    async def distribute_power(self, request):
        key = frozenset(request.component_ids)
        w = ProbeManager.ident(request)
        if key in self.active:
            self.viol.append(
                ("concurrent", {"group": sorted(key), "in_flight": self.calls[self.active[key]]["w"], "started": w})
            )
        idx = len(self.calls)
        rec = {"w": w, "group": key, "state": "running", "epoch": self.epoch, "fut": None}
        self.calls.append(rec)
        mode = 0
        if ProbeManager.instant_modes:
            mode = ProbeManager.chooser.choose(3, ("call-mode", w))
        if mode == 1:
            rec["state"] = "done"
            return
        if mode == 2:
            rec["state"] = "failed"
            raise RuntimeError("instant failure")
        self.active[key] = idx
        rec["fut"] = asyncio.get_running_loop().create_future()
        try:
            await rec["fut"]
        finally:
            if self.active.get(key) == idx:
                del self.active[key]


def make_scenario(cfg: str, instant: bool):
    reqs = REQS[cfg]

    def scenario(ch: Chooser) -> Observation:
        obs = Observation()
        saved = pd.BatteryManager
        pd.BatteryManager = ProbeManager
        ProbeManager.chooser = ch
        ProbeManager.instant_modes = instant
        try:
            with virtual_loop() as loop, _maybe_microgrid(cfg == "wrap"):
                if cfg == "wrap":
                    from frequenz.sdk._internal._channels import ChannelRegistry
                    from frequenz.sdk.microgrid._power_wrapper import PowerWrapper

                    wrapper = PowerWrapper(ChannelRegistry(name="verif"), api_power_request_timeout=timedelta(seconds=5),
                                           component_category=ComponentCategory.BATTERY)
                    wrapper._start_power_distributing_actor()
                    actor = wrapper._power_distributing_actor
                    req = wrapper._power_distribution_requests_channel
                else:
                    req = Broadcast(name="req")
                    res = Broadcast(name="res")
                    st = Broadcast(name="st")
                    actor = pd.PowerDistributingActor(
                        req.new_receiver(),
                        res.new_sender(),
                        st.new_sender(),
                        api_power_request_timeout=timedelta(seconds=5),
                        component_category=ComponentCategory.BATTERY,
                    )
                    actor.start()
                loop.settle()
                m = ProbeManager.current
                sender = req.new_sender()
                objs = [Request(power=Power.from_watts(p), component_ids=_ordered_set(ids)) for p, ids in reqs]
                by_id = {id(o): k for k, o in enumerate(objs)}

                def ident(r):
                    k = by_id.get(id(r))
                    if k is None:  # a copy: the latest issued request with the same content
                        k = max((j for j, o in enumerate(objs[:sent]) if o.power == r.power and o.component_ids == r.component_ids),
                                default=-1)
                    return float(k + 1)

                ProbeManager.ident = ident
                sent = 0
                sent_epoch: dict[float, int] = {}
                log = []
                viol = []
                coalesced = False

                advanced = [False]

                def enabled():
                    ev = []
                    if cfg == "slow" and not advanced[0] and m.active:
                        ev.append(("advance", 11.0))
                    if sent < len(reqs):
                        ev.append(("req", sent))
                    if cfg == "wrap" and sent + 1 < len(reqs):
                        ev.append(("burst", sent))  # requests `sent` and `sent + 1` in one event-loop turn
                    for j, c in enumerate(m.calls):
                        if c["state"] == "running" and c["fut"] is not None:
                            ev.append(("ok", j))
                            ev.append(("raise", j))
                    return ev

                def fire(e):
                    nonlocal sent, coalesced
                    log.append(e)
                    if e[0] == "advance":
                        advanced[0] = True
                        loop.advance(e[1])
                        return
                    if e[0] == "burst":
                        async def two(a=objs[e[1]], b=objs[e[1] + 1]):
                            await sender.send(a)
                            await sender.send(b)

                        for j in (e[1], e[1] + 1):
                            if frozenset(reqs[j][1]) in m.active:
                                coalesced = True
                            sent_epoch[float(j + 1)] = m.epoch
                        loop.create_task(two())
                        sent += 2
                        return
                    if e[0] == "req":
                        p, ids = reqs[e[1]]
                        if frozenset(ids) in m.active:
                            coalesced = True
                        loop.create_task(sender.send(objs[e[1]]))
                        sent_epoch[float(e[1] + 1)] = m.epoch
                        sent += 1
                    elif e[0] == "ok":
                        m.calls[e[1]]["state"] = "done"
                        m.calls[e[1]]["fut"].set_result(None)
                    else:
                        m.calls[e[1]]["state"] = "failed"
                        m.calls[e[1]]["fut"].set_exception(TimeoutError())  # an exception without arguments (as asyncio.timeout raises it)

                def quiescent_check():
                    # (c) an idle group has started its most recent request
                    m.epoch += 1
                    last = {}
                    for k, (p, ids) in enumerate(reqs[:sent]):
                        last[frozenset(ids)] = float(k + 1)
                    started = collections.defaultdict(list)
                    for c in m.calls:
                        started[c["group"]].append(c["w"])
                    for g, l in last.items():
                        obs.clauses["idle_group_has_latest"] = obs.clauses.get("idle_group_has_latest", 0) + 1
                        if g not in m.active and (not started[g] or started[g][-1] != l):
                            viol.append(
                                ("idle_group_has_latest", {"group": sorted(g), "started": started[g], "latest": l, "log": list(log)})
                            )
                    key = (
                        sent,
                        tuple(sorted((tuple(sorted(g)), m.calls[i]["w"]) for g, i in m.active.items())),
                        tuple((c["w"], c["state"]) for c in m.calls),
                    )
                    obs.state_keys.append(repr(key))

                while True:
                    while not loop.quiescent():
                        ev = enabled()
                        if ev:
                            c = ch.choose(1 + len(ev), ("mid", tuple(ev)), dev=True)
                            if c > 0:
                                fire(ev[c - 1])
                        loop.run_iteration()
                    quiescent_check()
                    ev = enabled()
                    if not ev:
                        break
                    c = ch.choose(len(ev), ("next", tuple(ev)))
                    fire(ev[c])

                # whole-trace oracles
                viol.extend(m.viol)
                obs.clauses["never_concurrent"] = len(m.calls)
                issued = collections.defaultdict(list)
                for k, (p, ids) in enumerate(reqs):
                    issued[frozenset(ids)].append(float(k + 1))
                started = collections.defaultdict(list)
                for c in m.calls:
                    started[c["group"]].append(c)
                for g, cs in started.items():
                    ws = [c["w"] for c in cs]
                    obs.clauses["subsequence"] = obs.clauses.get("subsequence", 0) + 1
                    it = iter(issued[g])
                    if not all(any(x == y for y in it) for x in ws):
                        viol.append(("subsequence", {"group": sorted(g), "issued": issued[g], "started": ws}))
                    # (e) a request is not started once a newer one was fully delivered earlier
                    for c in cs:
                        for newer in issued[g][issued[g].index(c["w"]) + 1 :] if c["w"] in issued[g] else []:
                            obs.clauses["superseded_not_started"] = obs.clauses.get("superseded_not_started", 0) + 1
                            if newer in sent_epoch and _delivered_before(sent_epoch[newer], c["epoch"]):
                                viol.append(
                                    ("superseded_not_started", {"group": sorted(g), "started": c["w"], "newer": newer, "log": list(log)})
                                )
                for g, l in issued.items():
                    obs.clauses["last_applied"] = obs.clauses.get("last_applied", 0) + 1
                    ws = [c["w"] for c in started[g]]
                    if not ws or ws[-1] != l[-1]:
                        viol.append(("last_applied", {"group": sorted(g), "started": ws, "last": l[-1], "log": list(log)}))
                obs.clauses["handled_errors_only"] = 1
                if loop.unhandled:
                    viol.append(("unhandled_exception", {"unhandled": loop.unhandled[:3], "log": list(log)}))
                obs.outcome = repr(tuple(sorted((tuple(sorted(g)), tuple(c["w"] for c in cs)) for g, cs in started.items())))
                obs.events = len(log)
                obs.nontrivial = coalesced
                obs.violations = viol
                obs.sample = {"events": [list(e) for e in log], "calls_started": obs.outcome}
                t = loop.create_task(actor.stop())
                loop.settle()
                if not t.done():
                    obs.violations.append(("stop_returns", {"log": list(log)}))
        finally:
            pd.BatteryManager = saved
        return obs

    return scenario


def _delivered_before(sent_at_epoch: int, start_epoch: int) -> bool:
    """A request sent while the epoch counter was ``e`` is certainly delivered once the
    loop has gone quiescent again (epoch ``e + 1``).  A call that *starts* in a later
    phase (``start_epoch >= e + 1``) therefore started after the newer request was known."""
    return start_epoch >= sent_at_epoch + 1


def _mkcase(cfg, instant):
    return lambda choices: {"driver": "actor", "cfg": cfg, "instant": instant, "choices": list(choices)}


def run(tier: str, seed: int, workers: int):
    from ..core import Acc

    acc = Acc()
    plans = (
        [("q", False, 2), ("q", True, 1), ("q2", False, 1), ("rep", False, 1), ("ovl", False, 1), ("ord", False, 1), ("slow", False, 1), ("wrap", False, 1)]
        if tier == "quick"
        else [("t", False, 2), ("q", True, 2), ("q2", True, 1), ("rep", True, 1), ("rep2", False, 1), ("ovl", True, 1), ("ord", False, 2), ("slow", False, 2), ("wrap", False, 2)]
    )
    bounds = {}
    for cfg, instant, bound in plans:
        sc = make_scenario(cfg, instant)
        determinism_selfcheck(sc)
        a = explore(sc, bound, _mkcase(cfg, instant), workers=workers)
        acc.merge(a)
        bounds[f"{cfg}{'+instant' if instant else ''}"] = {
            "requests": len(REQS[cfg]),
            "deviation_bound": bound,
            "executions": a.evaluations,
        }
    meta = {
        "rule": "every interleaving of request arrivals (issue order kept) with completions (ok / raise, "
        "optionally instant return / instant raise) of in-flight distribute_power calls, injected at "
        "quiescence (exhaustive) or between two loop iterations (deviation, bounded); an execution is "
        "non-trivial when at least one request arrives while a call for the same group is in flight",
        "assumptions": [
            "BatteryManager replaced by a probe manager from the harness (power_distributing.BatteryManager)",
            "requests are delivered through a real frequenz.channels Broadcast; asyncio FIFO scheduling is kept",
            "component groups {1} and {2} (plan 'ovl': {1,2} and {2,3}, two different groups sharing a component); request count and deviation bound as listed in bounds_completed; requests are identified by "
            "their position in the issue order (not by their power), and the plans 'rep' / 'rep2' repeat a power so that a request "
            "can equal the one in flight while a different one is pending",
        ],
        "exhaustive": True,
        "bounds": bounds,
    }
    return acc, meta


def replay(case: dict):
    sc = make_scenario(case["cfg"], case["instant"])
    obs = replay_choices(sc, case["choices"], case.get("labels"))
    return obs.violations
