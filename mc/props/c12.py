"""C12 — generated microgrid power formulas balance for every topology (E3 over graphs).

All rooted component trees up to a size (grid, meters nested to any depth, battery
inverters with batteries, PV inverters, EV chargers, metered CHPs) that the real graph
validation accepts are enumerated (isomorphic duplicates removed); the real formula
generators produce their engines, whose post-fix steps are evaluated with the real step
classes on the readings a simple physics model assigns to every component.
"""
from __future__ import annotations

import collections
import functools
import math

from frequenz.channels import Broadcast
from frequenz.client.microgrid import Component, ComponentCategory as CC, Connection, InverterType
from frequenz.quantities import Power

from frequenz.sdk._internal._channels import ChannelRegistry
from frequenz.sdk.microgrid import connection_manager
from frequenz.sdk.microgrid.component_graph import InvalidGraphError, _MicrogridComponentGraph
from frequenz.sdk.timeseries import Sample
from frequenz.sdk.timeseries.formula_engine._formula_generators import (
    BatteryPowerFormula,
    CHPPowerFormula,
    ConsumerPowerFormula,
    EVChargerPowerFormula,
    GridPowerFormula,
    ProducerPowerFormula,
    PVPowerFormula,
)
from frequenz.sdk.timeseries.formula_engine._formula_generators._formula_generator import FormulaGeneratorConfig
from frequenz.sdk.timeseries.formula_engine._formula_steps import (
    Adder,
    ConstantValue,
    MetricFetcher,
    OpenParen,
    Subtractor,
)

from .. import fakes
from ..core import Acc, Violation
from ..explore import pmap_acc

PID = "C12"


class _CM:
    def __init__(self, graph):
        self.component_graph = graph
        self.api_client = None


@functools.lru_cache(None)
def _sub(k):
    res = []
    if k == 1:
        res += ["B", "P", "E", "C", ("M", ())]
    if k == 2:
        res += ["B2"]  # a battery inverter with two batteries counts as two nodes
        res += ["BB"]  # two battery inverters sharing one battery
    if k == 3:
        res += ["BX"]  # three battery inverters, two batteries: i1 -> {b1, b2}, i2 -> b2, i3 -> b1
    if k >= 2:
        for f in _forest(k - 1, None):
            res.append(("M", f))
    return res


@functools.lru_cache(None)
def _forest(k, maxkey):
    """Multisets of subtrees with k nodes in canonical non-increasing order (removes isomorphic duplicates)."""
    if k == 0:
        return [()]
    res = []
    for first in range(k, 0, -1):
        for t in _sub(first):
            key = (first, repr(t))
            if maxkey is not None and key > maxkey:
                continue
            for rest in _forest(k - first, key):
                res.append((t,) + rest)
    return res


def chp_ok(forest):
    """A CHP only below a meter whose children are all CHPs (metered CHP, as the property's domain says)."""

    def ok(t, siblings):
        if t == "C":
            return siblings is not None and all(c == "C" for c in siblings)
        if isinstance(t, tuple):
            return all(ok(c, t[1]) for c in t[1])
        return True

    return all(ok(t, None) for t in forest)


def build(forest, id_scheme):
    comps = [Component(1, CC.GRID)]
    conns = []
    info = {}
    counter = [1]

    def new(kind):
        counter[0] += 1
        cid = counter[0] if id_scheme == 0 else 1000 - 7 * counter[0]
        info[cid] = kind
        return cid

    def add(parent, t):
        if t in ("B", "B2"):
            i = new("B")
            comps.append(Component(i, CC.INVERTER, InverterType.BATTERY))
            conns.append(Connection(parent, i))
            for _ in range(1 if t == "B" else 2):
                b = new("bat")
                comps.append(Component(b, CC.BATTERY))
                conns.append(Connection(i, b))
            return
        if t == "BB":
            i1, i2 = new("B"), new("B")
            for i in (i1, i2):
                comps.append(Component(i, CC.INVERTER, InverterType.BATTERY))
                conns.append(Connection(parent, i))
            b = new("bat")
            comps.append(Component(b, CC.BATTERY))
            conns.append(Connection(i1, b))
            conns.append(Connection(i2, b))
            return
        if t == "BX":
            i1, i2, i3 = new("B"), new("B"), new("B")
            for i in (i1, i2, i3):
                comps.append(Component(i, CC.INVERTER, InverterType.BATTERY))
                conns.append(Connection(parent, i))
            b1, b2 = new("bat"), new("bat")
            for b in (b1, b2):
                comps.append(Component(b, CC.BATTERY))
            conns.extend([Connection(i1, b1), Connection(i1, b2), Connection(i2, b2), Connection(i3, b1)])
            return
        if t == "P":
            i = new("P")
            comps.append(Component(i, CC.INVERTER, InverterType.SOLAR))
            conns.append(Connection(parent, i))
            return
        if t == "E":
            i = new("E")
            comps.append(Component(i, CC.EV_CHARGER))
            conns.append(Connection(parent, i))
            return
        if t == "C":
            i = new("C")
            comps.append(Component(i, CC.CHP))
            conns.append(Connection(parent, i))
            return
        i = new("M")
        comps.append(Component(i, CC.METER))
        conns.append(Connection(parent, i))
        for c in t[1]:
            add(i, c)

    for t in forest:
        add(1, t)
    return comps, conns, info


def evaluate(engine, values):
    steps, fetchers = engine._builder.finalize()
    for name, f in fetchers.items():
        cid = int(name[1:])
        v = values.get(cid)
        f._next_value = Sample(fakes.T0, None if v is None else Power.from_watts(v))
    st = []
    for s in steps:
        s.apply(st)
    if len(st) != 1:
        return math.nan
    return st[0]


def _warm_up(previous, id_scheme):
    """A graph object that has already served another topology: loaded with ``previous`` and used to generate
    every formula once (so that anything it memoises is filled).  Returns None if that topology is invalid."""
    comps, conns, info = build(previous, id_scheme)
    try:
        g = _MicrogridComponentGraph(set(comps), set(conns))
    except InvalidGraphError:
        return None
    saved = connection_manager._CONNECTION_MANAGER
    connection_manager._CONNECTION_MANAGER = _CM(g)
    try:
        reg = ChannelRegistry(name="warm-up")
        snd = Broadcast(name="warm-up-subs").new_sender()
        bats = {b for b, k in info.items() if k == "bat"}
        evs = {e for e, k in info.items() if k == "E"}
        for mk in (lambda: GridPowerFormula("w", reg, snd, FormulaGeneratorConfig()).generate(),
                   lambda: ConsumerPowerFormula("w", reg, snd, FormulaGeneratorConfig()).generate(),
                   lambda: ProducerPowerFormula("w", reg, snd, FormulaGeneratorConfig()).generate(),
                   lambda: BatteryPowerFormula("w", reg, snd, FormulaGeneratorConfig(component_ids=bats)).generate(),
                   lambda: PVPowerFormula("w", reg, snd, FormulaGeneratorConfig()).generate(),
                   lambda: EVChargerPowerFormula("w", reg, snd, FormulaGeneratorConfig(component_ids=evs)).generate(),
                   lambda: CHPPowerFormula("w", reg, snd, FormulaGeneratorConfig()).generate()):
            try:
                mk()
            except Exception:  # noqa: BLE001 - judged when that topology is checked itself
                pass
    finally:
        connection_manager._CONNECTION_MANAGER = saved
    return g


def check_graph(forest, id_scheme, allow_fallback, previous=None):
    """Returns (status, violations, n_basis).  With ``previous`` the graph object is not fresh: it was loaded with
    that other topology, used, and then refreshed to this one (refresh_from)."""
    comps, conns, info = build(forest, id_scheme)
    try:
        g = _warm_up(previous, id_scheme) if previous is not None else None
        if g is not None:
            g.refresh_from(set(comps), set(conns))
        else:
            g = _MicrogridComponentGraph(set(comps), set(conns))
    except InvalidGraphError:
        return "invalid", [], 0
    saved = connection_manager._CONNECTION_MANAGER
    connection_manager._CONNECTION_MANAGER = _CM(g)
    try:
        reg = ChannelRegistry(name="verif")
        sub = Broadcast(name="subs")
        snd = sub.new_sender()
        children = collections.defaultdict(list)
        for c in conns:
            children[c.start].append(c.end)
        devices = [i for i, k in info.items() if k in "BPEC"]

        def dedicated(m):
            ks = {info[c] for c in children[m]}
            return len(children[m]) > 0 and len(ks) == 1 and ks <= {"B", "P", "E", "C"}

        loads = [m for m, k in info.items() if k == "M" and not dedicated(m)]
        # consumption not behind any meter cannot be observed by any formula: only when the grid's successors are all meters
        basis = [("dev", d) for d in devices] + [("load", m) for m in loads]

        def subtree_devs(i):
            r = []
            for c in children[i]:
                if info[c] in "BPEC":
                    r.append(c)
                if info[c] == "M":
                    r += subtree_devs(c)
            return r

        def subtree_meters(i):
            r = []
            for c in children[i]:
                if info[c] == "M":
                    r.append(c)
                    r += subtree_meters(c)
            return r

        bats = {b for b, k in info.items() if k == "bat"}
        evs = {e for e, k in info.items() if k == "E"}
        cfg = lambda **kw: FormulaGeneratorConfig(allow_fallback=allow_fallback, **kw)  # noqa: E731
        viol = []
        engines = {}
        gens = {
            "grid": lambda: GridPowerFormula("ns", reg, snd, cfg()).generate(),
            "consumer": lambda: ConsumerPowerFormula("ns", reg, snd, cfg()).generate(),
            "producer": lambda: ProducerPowerFormula("ns", reg, snd, cfg()).generate(),
            "battery": lambda: BatteryPowerFormula("ns", reg, snd, cfg(component_ids=bats)).generate(),
            "pv": lambda: PVPowerFormula("ns", reg, snd, cfg()).generate(),
            "ev": lambda: EVChargerPowerFormula("ns", reg, snd, cfg(component_ids=evs)).generate(),
            "chp": lambda: CHPPowerFormula("ns", reg, snd, cfg()).generate(),
        }
        for nm, g_ in gens.items():
            try:
                engines[nm] = g_()
            except Exception as e:  # noqa: BLE001
                viol.append(("formula_generation_succeeds_for_valid_graph", {"formula": nm, "error": repr(e)[:200]}))
        for nm, e in engines.items():
            steps, _ = e._builder.finalize()
            bad = [type(s).__name__ for s in steps if not isinstance(s, (MetricFetcher, Adder, Subtractor, OpenParen, ConstantValue))]
            if bad:
                viol.append(("formula_is_linear_in_the_readings", {"formula": nm, "steps": bad}))

        def readings(dev, load):
            vals = dict(dev)
            for b in bats:
                vals[b] = 0.0
            for m, k in info.items():
                if k == "M":
                    vals[m] = sum(dev[d] for d in subtree_devs(m)) + load.get(m, 0.0) + sum(load.get(mm, 0.0) for mm in subtree_meters(m))
            return vals

        def expected(dev, load):
            exp = {
                "battery": sum(dev[d] for d in devices if info[d] == "B"),
                "pv": sum(dev[d] for d in devices if info[d] == "P"),
                "ev": sum(dev[d] for d in devices if info[d] == "E"),
                "chp": sum(dev[d] for d in devices if info[d] == "C"),
                "consumer": sum(load.values()),
            }
            exp["producer"] = exp["pv"] + exp["chp"]
            exp["grid"] = exp["consumer"] + exp["producer"] + exp["battery"] + exp["ev"]
            return exp

        vectors = []
        for kind, x in basis:
            dev = {d: (1.0 if (kind, x) == ("dev", d) else 0.0) for d in devices}
            load = {m: (1.0 if (kind, x) == ("load", m) else 0.0) for m in loads}
            vectors.append(((kind, info.get(x, "M") if kind == "dev" else "load", x), dev, load))
        # one combined vector with distinct non-unit magnitudes (both signs)
        dev = {d: (-1) ** k * (3.0 + 2 * k) for k, d in enumerate(devices)}
        load = {m: 11.0 + 4 * k for k, m in enumerate(loads)}
        vectors.append((("combined", "all", 0), dev, load))
        for tag, dev, load in vectors:
            vals = readings(dev, load)
            exp = expected(dev, load)
            got = {}
            for nm, e in engines.items():
                got[nm] = evaluate(e, vals)
                if math.isnan(got[nm]) or abs(got[nm] - exp[nm]) > 1e-9:
                    viol.append((f"{nm}_formula_equals_true_total",
                                 {"formula": nm, "unit_of_power_at": list(tag), "got": got[nm], "expected": exp[nm], "formula_text": str(e)}))
            if all(k in got for k in ("grid", "consumer", "producer", "battery", "ev")):
                s = got["consumer"] + got["producer"] + got["battery"] + got["ev"]
                if not (math.isnan(s) or math.isnan(got["grid"])) and abs(got["grid"] - s) > 1e-9:
                    viol.append(("grid_equals_consumer_plus_producer_plus_battery_plus_ev", {"unit_of_power_at": list(tag), "grid": got["grid"], "sum": s}))
        # fallback pairing: a primary with fallback components must read the same as their sum
        if allow_fallback:
            dev = {d: 3.0 + 2 * k for k, d in enumerate(devices)}
            load = {m: 11.0 + 4 * k for k, m in enumerate(loads)}
            vals = readings(dev, load)
            for nm, e in engines.items():
                _, fetchers = e._builder.finalize()
                for name, f in fetchers.items():
                    fb = getattr(f, "_fallback", None)
                    if fb is None:
                        continue
                    try:
                        fe = fb._formula_generator.generate()
                        fv = evaluate(fe, vals)
                    except Exception as ex:  # noqa: BLE001
                        viol.append(("fallback_formula_equals_primary_reading", {"formula": nm, "primary": name, "error": repr(ex)[:200]}))
                        continue
                    pv = vals.get(int(name[1:]))
                    if pv is None or math.isnan(fv) or abs(fv - pv) > 1e-9:
                        viol.append(("fallback_formula_equals_primary_reading",
                                     {"formula": nm, "primary": name, "primary_reading": pv, "fallback_value": fv, "fallback_text": str(fe)}))
        # de-duplicate by (clause, formula)
        seen = set()
        out = []
        for c, d in viol:
            k = (c, d.get("formula"))
            if k not in seen:
                seen.add(k)
                out.append((c, d))
        return "ok", out, len(vectors)
    finally:
        connection_manager._CONNECTION_MANAGER = saved


def shape_classes(forest):
    has_grid_meter = len(forest) == 1 and isinstance(forest[0], tuple)
    return ("no-grid-meter",) if not has_grid_meter else ("grid-meter",)


def shard(args) -> Acc:
    tier, n, lo, hi = args
    acc = Acc()
    allf = [f for f in _forest(n, None) if chp_ok(f)]
    forests = allf[lo:hi]
    for k, forest in enumerate(forests):
        # third mode: the graph object previously held the preceding topology of the enumeration (same ids, other roles)
        previous = allf[(lo + k - 1) % len(allf)]
        for id_scheme, allow_fallback, prev in ((0, False, None), (0, True, None), (1, False, None), (1, True, None), (0, False, previous)):
            if True:
                status, viol, nb = check_graph(forest, id_scheme, allow_fallback, prev)
                acc.evaluations += 1
                if status == "invalid":
                    acc.counters["rejected_by_graph_validation"] += 1
                    continue
                acc.traces += 1
                acc.transitions += nb * 7
                acc.clauses["formulas_equal_true_totals"] += nb * 7
                acc.clauses["grid_equals_consumer_plus_producer_plus_battery_plus_ev"] += nb
                depth_meters = repr(forest).count("('M'")
                if depth_meters >= 2 or len(forest) >= 2:
                    acc.nontrivial += 1
                acc.outcome(f"{shape_classes(forest)[0]} top={len(forest)}")
                if id_scheme == 0 and not allow_fallback and prev is None:
                    acc.state(repr(forest))
                if acc.traces % 900 == 1:
                    acc.sample({"forest": repr(forest), "id_scheme": id_scheme, "allow_fallback": allow_fallback, "vectors": nb})
                for clause, detail in viol:
                    acc.violation(Violation(clause, {"forest": repr(forest), "id_scheme": id_scheme, "allow_fallback": allow_fallback,
                                                     "refreshed_from": None if prev is None else repr(prev)},
                                            detail, shape_classes(forest)))
    return acc


def run(tier: str, seed: int, workers: int):
    shards = []
    nmax = 5 if tier == "quick" else 8
    step = 60
    for n in range(1, nmax + 1):
        total = len([f for f in _forest(n, None) if chp_ok(f)])
        for lo in range(0, total, step):
            shards.append((tier, n, lo, lo + step))
    if seed:
        import random

        random.Random(seed).shuffle(shards)
    acc = pmap_acc(shard, shards, workers)
    meta = {
        "rule": "every forest of subtrees below the grid connection with up to 5 (quick) / 8 (thorough) nodes from {meter with any children, "
        "battery inverter with 1 or 2 batteries, two battery inverters sharing one battery, PV inverter, EV charger, CHP below a CHP-only meter}, unlabelled-isomorphic duplicates "
        "removed, each with two component-id assignments and with allow_fallback off and on, and once on a graph object that held the "
        "preceding topology of the enumeration, generated all formulas for it and was then refreshed (refresh_from); graphs the real validation rejects are "
        "counted and skipped; per graph one unit of power at each device and one unit of unmetered load at each meter not dedicated "
        "to one device type, plus one combined vector; non-trivial = at least two meters or several grid successors",
        "assumptions": [
            "the generated formulas consist of fetch / add / subtract steps only (checked), so they are linear and the unit vectors decide "
            "them for every assignment of device powers",
            "steps are evaluated with the real step classes on injected readings (engine internals _builder / _next_value are used to "
            "inject them; no streaming)",
            "physics model: a meter reads the sum of everything below it plus its own unmetered load",
        ],
        "exhaustive": True,
        "bounds": {"max_nodes": nmax},
    }
    return acc, meta


def replay(case: dict):
    forest = eval(case["forest"], {"__builtins__": {}})  # noqa: S307 - a tuple literal written by this check
    prev = case.get("refreshed_from")
    prev = None if prev is None else eval(prev, {"__builtins__": {}})  # noqa: S307
    _, viol, _ = check_graph(forest, case["id_scheme"], case["allow_fallback"], prev)
    return viol
