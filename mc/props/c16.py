"""C16 — a battery is reported usable only while its data proves it healthy (E1 + E2).

The real ``BatteryStatusTracker`` (and, for the pool clause, the real
``ComponentPoolStatusTracker``) runs on the virtual loop with the wall clock bound to
it; every history over the event alphabet (battery / inverter messages healthy or
faulty in one way, silences, set-power outcomes) up to a depth is executed and the
notification sequence is compared with a seven-field reference model.
"""
from __future__ import annotations

import itertools
import math
from datetime import timedelta

from frequenz.channels import Broadcast
from frequenz.client.microgrid import (
    BatteryComponentState,
    BatteryError,
    BatteryErrorCode,
    BatteryRelayState,
    Component,
    ComponentCategory,
    Connection,
    ErrorLevel,
    InverterComponentState,
    InverterError,
    InverterErrorCode,
    InverterType,
)

from frequenz.sdk.microgrid._power_distributing._component_pool_status_tracker import ComponentPoolStatusTracker
from frequenz.sdk.microgrid._power_distributing._component_status import (
    BatteryStatusTracker,
    ComponentPoolStatus,
    SetPowerResult,
)

from .. import fakes
from ..core import Acc, Violation
from ..explore import pmap_acc
from ..vloop import virtual_loop

PID = "C16"
MAXAGE, MINB, MAXB = 5.0, 1.0, 4.0

BAT_KINDS = ["ok", "stale", "bad-state", "relay-open", "relay-error", "critical", "nan-capacity"]
INV_KINDS = ["ok", "stale", "bad-state", "critical"]
WAITS = [1.0, 4.0, 5.0, 6.0]
RESULTS = ["ok", "fail", "none"]


def alphabet(tier):
    ev = [("B", k) for k in BAT_KINDS] + [("I", k) for k in INV_KINDS] + [("W", w) for w in WAITS] + [("R", r) for r in RESULTS]
    return ev


def batmsg(cid, kind, now):
    kw = {}
    ts = now
    if kind == "stale":
        # more than a day old, with a seconds-of-day part below the maximum age (the inverter's stale message is
        # MAXAGE + 1 s old)
        ts = now - timedelta(days=1, seconds=1)
    elif kind == "bad-state":
        kw["state"] = BatteryComponentState.ERROR
    elif kind == "relay-open":
        kw["relay"] = BatteryRelayState.OPENED
    elif kind == "relay-error":
        kw["relay"] = BatteryRelayState.ERROR  # any state but CLOSED is non-operational
    elif kind == "critical":
        kw["errors"] = [BatteryError(level=ErrorLevel.CRITICAL, message="boom")]
    elif kind == "nan-capacity":
        kw["cap"] = float("nan")  # not the math.nan singleton
    elif kind == "warn":
        kw["errors"] = [BatteryError(level=ErrorLevel.WARN, message="meh")]
    return fakes.bat(cid, ts=ts, **kw)


def invmsg(cid, kind, now):
    kw = {}
    ts = now
    if kind == "stale":
        ts = now - timedelta(seconds=MAXAGE + 1)
    elif kind == "bad-state":
        kw["state"] = InverterComponentState.ERROR
    elif kind == "critical":
        kw["errors"] = [InverterError(level=ErrorLevel.CRITICAL, message="boom")]
    return fakes.inv(cid, ts=ts, **kw)


class Ref:
    """(bat_ok, bat_rx, inv_ok, inv_rx, blocked_until, last_duration, last_status)."""

    def __init__(self):
        self.t = 0.0
        self.bok = self.iok = False
        self.bts = self.its = 0.0  # timestamp carried by the last message
        self.brx = self.irx = None  # reception time of the last message
        self.btimer = self.itimer = MAXAGE
        self.until = None
        self.dur = MINB
        self.status = "NOT_WORKING"
        self.out = []

    def recompute(self):
        if not (self.bok and self.iok):
            cur = "NOT_WORKING"
        elif self.status == "NOT_WORKING":
            self.until = None
            cur = "WORKING"
        elif self.until is not None and self.until > self.t:
            cur = "UNCERTAIN"
        else:
            cur = "WORKING"
        if cur != self.status:
            self.status = cur
            self.out.append((round(self.t, 6), cur))

    def timers_until(self, t_end):
        while True:
            nxt = min(self.btimer, self.itimer)
            if nxt > t_end + 1e-9:
                break
            self.t = nxt
            for which in ("b", "i"):
                tm = self.btimer if which == "b" else self.itimer
                if tm != nxt:
                    continue
                if which == "b":
                    self.btimer = nxt + MAXAGE
                    if self.t - self.bts < MAXAGE:
                        continue
                    self.bok = False
                else:
                    self.itimer = nxt + MAXAGE
                    if self.t - self.its < MAXAGE:
                        continue
                    self.iok = False
                self.recompute()
        self.t = t_end

    def ev(self, e):
        k, a = e
        if k == "W":
            self.timers_until(self.t + a)
            return
        if k == "B":
            self.bok = a == "ok"
            self.bts = self.t if a != "stale" else self.t - (MAXAGE + 1)
            self.brx = self.t
            self.btimer = self.t + MAXAGE
        elif k == "I":
            self.iok = a == "ok"
            self.its = self.t if a != "stale" else self.t - (MAXAGE + 1)
            self.irx = self.t
            self.itimer = self.t + MAXAGE
        elif k == "R":
            if a == "ok":
                self.until = None
            elif a == "fail" and self.status != "NOT_WORKING":
                if self.until is None:
                    self.dur = MINB
                    self.until = self.t + self.dur
                elif self.until > self.t:
                    pass
                else:
                    self.dur = min(2 * self.dur, MAXB)
                    self.until = self.t + self.dur
        self.recompute()

    def proven_healthy(self):
        """Both latest messages healthy and received less than max_data_age ago."""
        return (self.bok and self.iok and self.brx is not None and self.irx is not None
                and self.t - self.brx < MAXAGE + 1e-9 and self.t - self.irx < MAXAGE + 1e-9)


COMPS = {Component(1, ComponentCategory.GRID), Component(2, ComponentCategory.METER),
         Component(8, ComponentCategory.INVERTER, InverterType.BATTERY), Component(9, ComponentCategory.BATTERY)}
CONNS = {Connection(1, 2), Connection(2, 8), Connection(8, 9)}


def run_history(hist):
    """Execute one history on the real tracker; returns (notifications, safety violations)."""
    out = []
    safety = []
    with virtual_loop(wall=True) as loop, fakes.fake_microgrid(COMPS, CONNS) as cm:
        api = cm.api_client
        st = Broadcast(name="st")
        sp = Broadcast(name="sp")
        rx = st.new_receiver()
        sps = sp.new_sender()
        tracker = BatteryStatusTracker(
            9, max_data_age=timedelta(seconds=MAXAGE), max_blocking_duration=timedelta(seconds=MAXB),
            status_sender=st.new_sender(), set_power_result_receiver=sp.new_receiver(),
        )
        tracker.start()
        loop.settle()
        ref = Ref()

        async def consume():
            async for m in rx:  # stamps each notification with the instant it was sent
                out.append((round(loop.time(), 6), m.value.name))

        loop.create_task(consume())
        loop.settle()

        def drain():
            pass

        def check_safety(e):
            last = out[-1][1] if out else "NOT_WORKING"
            if last in ("WORKING", "UNCERTAIN") and not ref.proven_healthy():
                safety.append({"after_event": list(e), "t": loop.time(), "reported": last,
                               "ref": [ref.bok, ref.brx, ref.iok, ref.irx]})

        for e in hist:
            k, a = e
            if k == "B":
                api.push(batmsg(9, a, loop.wall_now()))
                loop.settle()
            elif k == "I":
                api.push(invmsg(8, a, loop.wall_now()))
                loop.settle()
            elif k == "R":
                loop.create_task(sps.send(SetPowerResult(succeeded={9} if a == "ok" else set(),
                                                         failed={9} if a == "fail" else set())))
                loop.settle()
            elif k == "X":
                # same-instant race: move the clock exactly onto the next data timer WITHOUT letting the loop
                # run, deliver the message, then run: the tracker sees timer and message in the same instant
                nt = loop.next_timer()
                dt = 0.0 if nt is None else max(0.0, nt - loop.time())
                loop.set_time(loop.time() + dt)
                which, kind = a
                api.push(batmsg(9, kind, loop.wall_now()) if which == "B" else invmsg(8, kind, loop.wall_now()))
                loop.settle()
                ref.ev(("W", dt))
                ref.ev((which, kind))
                check_safety(e)
                continue
            else:
                loop.advance(a)
            drain()
            ref.ev(e)
            check_safety(e)
        key = state_key(tracker, ref, loop)
        loop.create_task(tracker.stop())
        loop.settle()
    run_history.last_key = key
    return out, ref.out, safety


def state_key(tracker, ref, loop):
    """Canonical state after a history: what the reference knows (reception ages, blocking,
    status) plus the corresponding fields read from the real tracker, all relative to now."""
    now = loop.wall_now()
    t = ref.t

    def age(x):
        return None if x is None else min(round(t - x, 3), MAXAGE + 1)

    def rel(x):
        return None if x is None else ("expired" if x <= t + 1e-9 else round(x - t, 3))

    refkey = (ref.bok, ref.iok, age(ref.brx), age(ref.irx), min(round(t - ref.bts, 3), MAXAGE + 2), min(round(t - ref.its, 3), MAXAGE + 2),
              rel(ref.until), ref.dur, ref.status)
    try:
        b = tracker._blocking_status
        until = b.blocked_until
        real = (
            tracker._battery.last_msg_correct, tracker._inverter.last_msg_correct, tracker._last_status.name,
            None if until is None else ("expired" if until <= now else round((until - now).total_seconds(), 3)),
            b.last_blocking_duration.total_seconds(),
        )
    except AttributeError:
        real = ()
    extra = tuple(sorted((k, repr(v)) for k, v in vars(tracker._blocking_status).items()
                         if k not in ("blocked_until", "last_blocking_duration", "min_duration", "max_duration", "_timedelta_zero"))) \
        if hasattr(tracker, "_blocking_status") else ()
    return repr((refkey, real, extra))


def check_history(hist):
    got, exp, safety = run_history(hist)
    v = []
    for s in safety:
        v.append(("reported_usable_only_while_data_proves_healthy", s))
    if any(e[0] == "X" for e in hist):
        return got, v  # same-instant races: only the safety clause is required
    if got != exp:
        v.append(("notification_sequence_matches_reference", {"got": got, "expected": exp}))
    # notifications only on change
    for a, b in zip(got, got[1:]):
        if a[1] == b[1]:
            v.append(("notifications_only_on_change", {"got": got}))
            break
    return got, v


CLAUSES = ["reported_usable_only_while_data_proves_healthy", "notification_sequence_matches_reference",
           "notifications_only_on_change"]


def shard(args) -> Acc:
    tier, prefix, depth = args
    acc = Acc()
    ev = alphabet(tier)
    for tail in itertools.product(ev, repeat=depth):
        hist = list(prefix) + list(tail)
        got, viol = check_history(hist)
        acc.evaluations += 1
        acc.traces += 1
        acc.transitions += len(hist)
        for c in CLAUSES:
            acc.clauses[c] += 1
        statuses = [s for _, s in got]
        if "UNCERTAIN" in statuses or statuses.count("NOT_WORKING") >= 1 and statuses.count("WORKING") >= 1:
            acc.nontrivial += 1
        acc.outcome(" > ".join(statuses) or "(none)")
        acc.state(repr(hist))
        if acc.evaluations % 3000 == 1:
            acc.sample({"history": hist, "notifications": got})
        for clause, detail in viol:
            acc.violation(Violation(clause, {"driver": "tracker", "history": [list(e) for e in hist]}, detail))
    return acc


# -- E2: breadth-first search with canonical-state merging ---------------------------


def _bfs_item(hist):
    got, viol = check_history(list(hist))
    return hist, run_history.last_key, viol, [s for _, s in got]


def bfs(tier, depth, workers) -> Acc:
    """States are merged on ``state_key``; each state keeps its shortest history, which is
    re-executed from scratch with every event appended (live objects cannot be copied)."""
    import multiprocessing as mp

    acc = Acc()
    ev = alphabet(tier)
    seen = {"<initial>"}
    frontier = [()]
    ctx = mp.get_context("fork")
    with ctx.Pool(max(1, workers)) as pool:
        for level in range(depth):
            items = [h + (e,) for h in frontier for e in ev]
            nxt = []
            for hist, key, viol, statuses in pool.imap(_bfs_item, items, chunksize=16):
                acc.transitions += 1
                acc.evaluations += 1
                for c in CLAUSES:
                    acc.clauses[c] += 1
                for clause, detail in viol:
                    acc.violation(Violation(clause, {"driver": "tracker", "history": [list(e) for e in hist]}, detail))
                if key not in seen:
                    seen.add(key)
                    nxt.append(hist)
                    acc.traces += 1
                    if "UNCERTAIN" in statuses:
                        acc.nontrivial += 1
                    if len(seen) % 400 == 1:
                        acc.sample({"bfs_history": [list(e) for e in hist], "notifications": statuses})
            frontier = nxt
            acc.counters[f"bfs_new_states_level_{level + 1}"] = len(nxt)
            if not nxt:
                break
    acc.states = len(seen)
    acc.state_keys = set(seen)
    acc.outcome(f"bfs depth={depth} states={len(seen)}")
    return acc


# -- pool level --------------------------------------------------------------------

POOL_COMPS = COMPS | {Component(18, ComponentCategory.INVERTER, InverterType.BATTERY), Component(19, ComponentCategory.BATTERY)}
POOL_CONNS = CONNS | {Connection(2, 18), Connection(18, 19)}
POOL_EVENTS = [("B", 9, "ok"), ("B", 9, "relay-open"), ("I", 8, "ok"), ("B", 19, "ok"), ("I", 18, "ok"), ("I", 18, "critical"),
               ("W", 6.0), ("W", 1.0), ("R", "fail9"), ("R", "fail19"), ("R", "ok-all"),
               # two results reported back to back (the reporting task is not suspended in between)
               ("RR", "ok19-fail9", "ok19"), ("RR", "fail19", "ok9")]
RESULT_SETS = {"fail9": (set(), {9}), "fail19": (set(), {19}), "ok-all": ({9, 19}, set()), "ok19-fail9": ({19}, {9}),
               "ok19": ({19}, set()), "ok9": ({9}, set())}


def run_pool_history(hist):
    v = []
    with virtual_loop(wall=True) as loop, fakes.fake_microgrid(POOL_COMPS, POOL_CONNS) as cm:
        api = cm.api_client
        ch = Broadcast(name="pool-status")
        rx = ch.new_receiver()
        pool = ComponentPoolStatusTracker(
            component_ids={9, 19}, component_status_sender=ch.new_sender(), max_data_age=timedelta(seconds=MAXAGE),
            max_blocking_duration=timedelta(seconds=MAXB), component_status_tracker_type=BatteryStatusTracker,
        )
        loop.settle()
        refs = {9: Ref(), 19: Ref()}
        inv_of = {8: 9, 18: 19}
        last = None
        for e in hist:
            if e[0] == "B":
                api.push(batmsg(e[1], e[2], loop.wall_now()))
                loop.settle()
                refs[e[1]].ev(("B", e[2]))
            elif e[0] == "I":
                api.push(invmsg(e[1], e[2], loop.wall_now()))
                loop.settle()
                refs[inv_of[e[1]]].ev(("I", e[2]))
            elif e[0] in ("R", "RR"):
                batch = [RESULT_SETS[k] for k in e[1:]]

                async def report(batch=batch):
                    for ok, failed in batch:
                        await pool.update_status(set(ok), set(failed))

                loop.create_task(report())
                loop.settle()
                for ok, failed in batch:
                    for b in (9, 19):
                        refs[b].ev(("R", "ok" if b in ok else ("fail" if b in failed else "none")))
            else:
                loop.advance(e[1])
                for r in refs.values():
                    r.ev(("W", e[1]))
            for r in refs.values():
                r.t = loop.time()
            while len(rx):
                last = rx.consume()
            exp_working = {b for b, r in refs.items() if r.status == "WORKING"}
            exp_uncertain = {b for b, r in refs.items() if r.status == "UNCERTAIN"}
            cur = pool._current_status if last is None else last
            if (set(cur.working), set(cur.uncertain)) != (exp_working, exp_uncertain):
                v.append(("pool_status_matches_component_statuses",
                          {"after": list(e), "working": sorted(cur.working), "uncertain": sorted(cur.uncertain),
                           "expected_working": sorted(exp_working), "expected_uncertain": sorted(exp_uncertain)}))
                break
            for req in ({9}, {19}, {9, 19}):
                got = set(pool.get_working_components(req))
                exp = (exp_working & req) or (exp_uncertain & req)
                if got != exp:
                    v.append(("uncertain_used_only_when_none_working", {"requested": sorted(req), "got": sorted(got), "expected": sorted(exp)}))
        loop.create_task(pool.stop())
        loop.settle()
    return v


def pool_shard(args) -> Acc:
    tier, first, depth, tier_start = args
    acc = Acc()
    healthy = [("B", 9, "ok"), ("I", 8, "ok"), ("B", 19, "ok"), ("I", 18, "ok")]
    for tail in itertools.product(POOL_EVENTS, repeat=depth - 1):
        hist = ([first, *tail] if tier_start == "cold" else healthy + [first, *tail])
        viol = run_pool_history(hist)
        acc.evaluations += 1
        acc.traces += 1
        acc.transitions += len(hist)
        acc.clauses["pool_status_matches_component_statuses"] += 1
        acc.clauses["uncertain_used_only_when_none_working"] += 3 * len(hist)
        acc.nontrivial += 1 if any(e[0] in ("R", "RR") for e in hist) else 0
        acc.state(repr(hist))
        for clause, detail in viol:
            acc.violation(Violation(clause, {"driver": "pool", "history": [list(e) for e in hist]}, detail))
    acc.outcome("pool")
    return acc


def _backoff_history(bat, inv, n_failures):
    """healthy start, then ``n_failures`` failed commands for ``bat``, each issued half a second after the previous
    block has expired, with fresh data in between (so that only the blocking logic decides), and a look at the
    status every second afterwards"""
    other_b, other_i = (19, 18) if bat == 9 else (9, 8)
    fresh = [("B", bat, "ok"), ("I", inv, "ok"), ("B", other_b, "ok"), ("I", other_i, "ok")]
    hist = list(fresh)
    wait = 1.0
    for k in range(n_failures):
        hist.append(("R", f"fail{bat}"))
        for _ in range(int(min(wait, MAXB))):
            hist += [("W", 1.0), *fresh]
        hist += [("W", 0.5), *fresh]
        wait *= 2
    return hist


def pool_directed(_args) -> Acc:
    """A few long histories beyond the exhaustive depth: the back-off sequence up to its cap, through the pool."""
    acc = Acc()
    for bat, inv in ((9, 8), (19, 18)):
        for n in (3, 4, 5) + ((50,) if bat == 9 else ()):  # 50 failures in a row: far beyond the point where the cap is reached
            hist = _backoff_history(bat, inv, n)
            viol = run_pool_history(hist)
            acc.evaluations += 1
            acc.traces += 1
            acc.transitions += len(hist)
            acc.nontrivial += 1
            acc.clauses["pool_status_matches_component_statuses"] += 1
            acc.state(repr(hist))
            for clause, detail in viol:
                acc.violation(Violation(clause, {"driver": "pool", "history": [list(e) for e in hist]}, detail))
    acc.outcome("pool-directed")
    return acc


def pure_pool_status() -> Acc:
    acc = Acc()
    ids = [1, 2, 3]
    subsets = [set(c) for r in range(4) for c in itertools.combinations(ids, r)]
    for w, u, req in itertools.product(subsets, subsets, subsets):
        if w & u:
            continue
        got = ComponentPoolStatus(working=set(w), uncertain=set(u)).get_working_components(req)
        exp = (w & req) or (u & req)
        acc.evaluations += 1
        acc.clauses["uncertain_used_only_when_none_working"] += 1
        if set(got) != exp:
            acc.violation(Violation("uncertain_used_only_when_none_working",
                                    {"driver": "pure", "working": sorted(w), "uncertain": sorted(u), "requested": sorted(req)},
                                    {"got": sorted(got), "expected": sorted(exp)}))
    return acc


def _dispatch(args):
    if args[0] == "tracker":
        return shard(args[1:])
    if args[0] == "pool":
        return pool_shard(args[1:])
    if args[0] == "pool-directed":
        return pool_directed(args[1:])
    return pure_pool_status()


def run(tier: str, seed: int, workers: int):
    ev = alphabet(tier)
    shards = []
    healthy = [("B", "ok"), ("I", "ok")]
    if tier == "quick":
        for e1, e2 in itertools.product(ev, ev):
            shards.append(("tracker", tier, healthy + [e1, e2], 2))  # healthy start, depth 4
        for e1 in ev:
            shards.append(("tracker", tier, [e1], 2))  # cold start, depth 3
        # a message landing at exactly the instant a data timer fires (safety clause only)
        for xk in [("B", "ok"), ("B", "critical"), ("I", "ok"), ("I", "bad-state")]:
            for w in (1.0, 4.0):
                shards.append(("tracker", tier, healthy + [("W", w), ("X", xk)], 2))
        for e1, e2 in itertools.product([("R", "fail")], ev):
            shards.append(("tracker", tier, healthy + [e1, e2], 2))  # after a failure, depth 4
        pool_depth = 3
    else:
        for e1, e2 in itertools.product(ev, ev):
            shards.append(("tracker", tier, healthy + [e1, e2], 3))  # depth 5
        for e1, e2 in itertools.product(ev, ev):
            shards.append(("tracker", tier, [e1, e2], 2))  # cold, depth 4
        for e1, e2 in itertools.product([("R", "fail")], ev):
            shards.append(("tracker", tier, healthy + [e1, ("W", 1.0), ("R", "fail"), e2], 2))
        pool_depth = 4
    for e in POOL_EVENTS:
        shards.append(("pool", tier, e, pool_depth, "cold"))
        shards.append(("pool", tier, e, pool_depth, "healthy"))
    shards.append(("pure",))
    shards.append(("pool-directed",))
    if seed:
        import random

        random.Random(seed).shuffle(shards)
    acc = pmap_acc(_dispatch, shards, workers)
    acc.merge(bfs(tier, 10 if tier == "quick" else 13, workers))
    meta = {
        "rule": "every history over the alphabet {battery message: healthy / stale / bad component state / open relay / critical "
        "error / relay in ERROR / NaN capacity; inverter message: healthy / stale / bad state / critical error; silence 1, 4, 5 (exactly the "
        "maximum age), 6 s; set-power result succeeded / failed / not mentioned} to the stated depth, from a healthy start, "
        "from a cold start and after a failure; each history is one execution of the real tracker, compared step by step with "
        "the reference; non-trivial = the notification sequence contains UNCERTAIN or both WORKING and NOT_WORKING; plus the "
        "real ComponentPoolStatusTracker over two batteries (13 events incl. two results reported back to back, from a cold start and from both batteries healthy) and all "
        "3-element ComponentPoolStatus queries; plus seven long directed pool histories (3-5 and once 50 failed commands in a row, each after the previous "
        "block expired, with fresh data throughout: the back-off sequence up to its cap as seen through the pool); plus a BFS "
        "from the cold start to depth 10 (quick) / 13 (thorough) with states merged on (validity flags, reception and message ages, "
        "blocking deadline relative to now, last blocking duration, last status) read from the reference AND the real tracker",
        "assumptions": [
            "max_data_age 5 s, blocking 1 s doubling to the cap of 4 s; fresh messages are stamped 'now' (message age = reception age); "
            "a stale battery message is 1 day + 1 s old, a stale inverter message 6 s",
            "wall clock bound to the virtual clock with time_machine",
            "no state merging: every history is executed from a fresh tracker",
        ],
        "exhaustive": True,
        "bounds": {"alphabet": len(ev), "depth": 4 if tier == "quick" else 5, "pool_depth": pool_depth},
    }
    return acc, meta


def replay(case: dict):
    if case["driver"] == "tracker":
        _, v = check_history([tuple(e) for e in case["history"]])
        return v
    if case["driver"] == "pool":
        return run_pool_history([tuple(e) for e in case["history"]])
    a = pure_pool_status()
    return [(v.clause, v.detail) for v in a.violations.values()]
