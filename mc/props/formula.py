"""Shared harness for the formula-engine properties (C05, C13; also used by C06/C19).

Programs are expression trees built through the public composition API
(``FormulaEngine.from_receiver``, operators, ``.min/.max/.consumption/.production``,
constants, ``.build``) or formula strings compiled by ``ResampledFormulaBuilder``;
they are *run* on the virtual loop over real ``Broadcast`` channels, one input vector
per timestamp, and the emitted samples are compared with a reference evaluator.
"""
from __future__ import annotations

import itertools
import math
from datetime import datetime, timedelta, timezone

from frequenz.channels import Broadcast
from frequenz.client.microgrid import ComponentMetricId
from frequenz.quantities import Quantity

from frequenz.sdk._internal._channels import ChannelRegistry
from frequenz.sdk.microgrid._data_sourcing import ComponentMetricRequest
from frequenz.sdk.timeseries import Sample
from frequenz.sdk.timeseries.formula_engine import FormulaEngine
from frequenz.sdk.timeseries.formula_engine._resampled_formula_builder import ResampledFormulaBuilder

from ..vloop import virtual_loop

T0 = datetime(2024, 1, 1, tzinfo=timezone.utc)
BIN = ["+", "-", "*", "/", "max", "min"]
UN = ["consumption", "production"]
LEAVES = ["A", "B", "C"]


def ts(k):
    return T0 + timedelta(seconds=k)


def push(sender, sample):
    coro = sender.send(sample)
    try:
        coro.send(None)
    except StopIteration:
        return
    raise RuntimeError("Broadcast.send() suspended")


# ---------------------------------------------------------------------------
# expression trees
# ---------------------------------------------------------------------------
# ("leaf", name) | ("const", value) | ("bin", op, l, r) | ("un", op, x) | ("built", tree, nz)  (a nested .build())


def show(t):
    if t[0] == "leaf":
        return t[1]
    if t[0] == "const":
        return repr(t[1])
    if t[0] == "bin":
        if t[1] in ("max", "min"):
            return f"{show(t[2])}.{t[1]}({show(t[3])})"
        return f"({show(t[2])} {t[1]} {show(t[3])})"
    if t[0] == "un":
        return f"{show(t[2])}.{t[1]}()"
    return f"build[{'nz' if t[2] else ''}]({show(t[1])})"


def n_ops(t):
    if t[0] in ("leaf", "const"):
        return 0
    if t[0] == "bin":
        return 1 + n_ops(t[2]) + n_ops(t[3])
    if t[0] == "un":
        return 1 + n_ops(t[2])
    return n_ops(t[1])


def leaves_of(t, acc=None):
    acc = [] if acc is None else acc
    if t[0] == "leaf":
        acc.append(t[1])
    elif t[0] == "bin":
        leaves_of(t[2], acc)
        leaves_of(t[3], acc)
    elif t[0] == "un":
        leaves_of(t[2], acc)
    elif t[0] == "built":
        leaves_of(t[1], acc)
    return acc


def trees(n, leaves=LEAVES, consts=(2.0,), allow_const=True):
    """All trees with exactly n operator nodes the Python API can express (the left
    operand of a binary operator is never a constant)."""
    if n == 0:
        return [("leaf", x) for x in leaves]
    out = []
    for t in trees(n - 1, leaves, consts):
        for op in UN:
            out.append(("un", op, t))
    for k in range(n):
        lefts = trees(k, leaves, consts)
        rights = trees(n - 1 - k, leaves, consts)
        if n - 1 - k == 0 and allow_const:
            rights = rights + [("const", c) for c in consts]
        for op in BIN:
            for l, r in itertools.product(lefts, rights):
                out.append(("bin", op, l, r))
    return out


def is_missing(v):
    return v is None or (isinstance(v, float) and (math.isnan(v) or math.isinf(v)))


def ref_eval(t, vals, nz_leaf, nz_build):
    """Reference evaluator with None-propagation. Returns a float or None."""
    k = t[0]
    if k == "leaf":
        v = vals[t[1]]
        if is_missing(v):
            return 0.0 if (nz_leaf.get(t[1], False) or nz_build) else None
        return float(v)
    if k == "const":
        return float(t[1])
    if k == "built":
        v = ref_eval(t[1], vals, nz_leaf, t[2])
        if v is None:
            return 0.0 if nz_build else None
        return v
    if k == "un":
        x = ref_eval(t[2], vals, nz_leaf, nz_build)
        if x is None:
            return None
        return max(x, 0.0) if t[1] == "consumption" else max(-x, 0.0)
    l = ref_eval(t[2], vals, nz_leaf, nz_build)
    r = ref_eval(t[3], vals, nz_leaf, nz_build)
    if l is None or r is None:
        return None
    op = t[1]
    try:
        if op == "+":
            res = l + r
        elif op == "-":
            res = l - r
        elif op == "*":
            res = l * r
        elif op == "/":
            if r == 0:
                return None
            res = l / r
        elif op == "max":
            res = max(l, r)
        else:
            res = min(l, r)
    except OverflowError:
        return None
    if math.isnan(res) or math.isinf(res):
        return None
    return res


def ieee_eval(t, vals, nz_leaf, nz_build):
    """Second reading for inputs whose *intermediate* results overflow: only the final result has to be finite
    (x / inf == 0 is a finite result).  Missing inputs and zero divisors still propagate."""
    nan = math.nan

    def ev(t, nzb):
        k = t[0]
        if k == "leaf":
            v = vals[t[1]]
            if is_missing(v):
                return 0.0 if (nz_leaf.get(t[1], False) or nzb) else nan
            return float(v)
        if k == "const":
            return float(t[1])
        if k == "built":
            v = ev(t[1], t[2])
            if math.isnan(v) or math.isinf(v):
                return 0.0 if nzb else nan
            return v
        if k == "un":
            x = ev(t[2], nzb)
            if math.isnan(x):
                return nan
            return max(x, 0.0) if t[1] == "consumption" else max(-x, 0.0)
        l, r = ev(t[2], nzb), ev(t[3], nzb)
        if math.isnan(l) or math.isnan(r):
            return nan
        op = t[1]
        if op == "+":
            return l + r
        if op == "-":
            return l - r
        if op == "*":
            return l * r
        if op == "/":
            if r == 0:
                return nan
            return l / r
        return max(l, r) if op == "max" else min(l, r)

    res = ev(t, nz_build)
    return None if (math.isnan(res) or math.isinf(res)) else res


def has_undefined(t, vals, nz_leaf, nz_build):
    """True when some division in the tree has a zero (or missing) divisor for these inputs."""
    if t[0] == "bin":
        if t[1] == "/":
            r = ref_eval(t[3], vals, nz_leaf, nz_build)
            if r is None or r == 0:
                return True
        return has_undefined(t[2], vals, nz_leaf, nz_build) or has_undefined(t[3], vals, nz_leaf, nz_build)
    if t[0] == "un":
        return has_undefined(t[2], vals, nz_leaf, nz_build)
    if t[0] == "built":
        return has_undefined(t[1], vals, nz_leaf, t[2])
    return False


# ---------------------------------------------------------------------------
# building through the public API
# ---------------------------------------------------------------------------


class Counter:
    n = 0


def _nz(flag):
    """A stream that is *not* configured to treat missing values as zero is built without the keyword, so the
    documented default is what is exercised."""
    return {"nones_are_zeros": True} if flag else {}


def build_api(t, engines, counter):
    """Return an engine or higher-order builder for tree t (engines: leaf name -> FormulaEngine)."""
    k = t[0]
    if k == "leaf":
        return engines[t[1]]
    if k == "const":
        raise AssertionError("constant in operand position handled by caller")
    if k == "built":
        inner = build_api(t[1], engines, counter)
        if isinstance(inner, FormulaEngine):
            return inner
        counter.n += 1
        return inner.build(f"inner-{counter.n}", **_nz(t[2]))
    if k == "un":
        x = build_api(t[2], engines, counter)
        return getattr(x, t[1])()
    op, l, r = t[1], t[2], t[3]
    left = build_api(l, engines, counter)
    if r[0] == "const":
        right = Quantity(r[1]) if op in ("+", "-", "max", "min") else float(r[1])
    else:
        right = build_api(r, engines, counter)
    if op == "+":
        return left + right
    if op == "-":
        return left - right
    if op == "*":
        return left * right
    if op == "/":
        return left / right
    return getattr(left, op)(right)


def run_tree(tree, inputs, nz_leaf=None, nz_build=False):
    """inputs: list (one per timestamp) of dict leaf -> value. Returns list of (k, value|None)."""
    nz_leaf = nz_leaf or {}
    names = sorted(set(leaves_of(tree)))
    out = []
    with virtual_loop() as loop:
        chans = {n: Broadcast(name=f"in-{n}") for n in names}
        senders = {n: c.new_sender() for n, c in chans.items()}
        engines = {
            n: FormulaEngine.from_receiver(f"leaf-{n}", chans[n].new_receiver(), Quantity, **_nz(nz_leaf.get(n, False)))
            for n in names
        }
        counter = Counter()
        top = build_api(tree, engines, counter)
        engine = top if isinstance(top, FormulaEngine) else top.build("top", **_nz(nz_build))
        rx = engine.new_receiver()
        loop.settle()
        for k, vals in enumerate(inputs):
            for n in names:
                v = vals[n]
                push(senders[n], Sample(ts(k), None if v is None else Quantity(float(v))))
            loop.settle()
            while len(rx):
                s = rx.consume()
                out.append((int((s.timestamp - T0).total_seconds()), None if s.value is None else s.value.base_value))
        errors = list(loop.unhandled)
    return out, errors


def run_tree_3phase(tree, inputs, nz_build=False):
    """Like run_tree, but every leaf is a FormulaEngine3Phase over three per-phase streams.
    inputs: list (one per timestamp) of dict leaf -> (v1, v2, v3).  Returns list of (k, (p1, p2, p3))."""
    from frequenz.sdk.timeseries.formula_engine import FormulaEngine3Phase

    names = sorted(set(leaves_of(tree)))
    out = []
    with virtual_loop() as loop:
        chans = {(n, ph): Broadcast(name=f"in-{n}-{ph}") for n in names for ph in range(3)}
        senders = {k: c.new_sender() for k, c in chans.items()}
        engines = {
            n: FormulaEngine3Phase(
                f"leaf3-{n}", Quantity,
                tuple(FormulaEngine.from_receiver(f"leaf-{n}-{ph}", chans[(n, ph)].new_receiver(), Quantity) for ph in range(3)),
            )
            for n in names
        }
        counter = Counter()
        top = build_api(tree, engines, counter)
        engine = top if isinstance(top, FormulaEngine3Phase) else top.build("top3", **_nz(nz_build))
        rx = engine.new_receiver()
        loop.settle()
        for k, vals in enumerate(inputs):
            for n in names:
                for ph in range(3):
                    v = vals[n][ph]
                    push(senders[(n, ph)], Sample(ts(k), None if v is None else Quantity(float(v))))
            loop.settle()
            while len(rx):
                s = rx.consume()
                out.append((int((s.timestamp - T0).total_seconds()),
                            tuple(None if x is None else x.base_value for x in (s.value_p1, s.value_p2, s.value_p3))))
    return out


# ---------------------------------------------------------------------------
# formula strings
# ---------------------------------------------------------------------------


def ref_string(formula, values):
    """Independent precedence-climbing evaluator (usual precedence, left associative).
    Returns float, or None when undefined (division by zero)."""
    toks = []
    i = 0
    while i < len(formula):
        c = formula[i]
        if c.isspace():
            i += 1
            continue
        if c == "#":
            j = i + 1
            while j < len(formula) and formula[j].isdigit():
                j += 1
            toks.append(("n", int(formula[i + 1:j])))
            i = j
            continue
        toks.append(("o", c))
        i += 1
    pos = [0]

    class Undefined(Exception):
        pass

    def peek():
        return toks[pos[0]] if pos[0] < len(toks) else None

    def atom():
        t = toks[pos[0]]
        pos[0] += 1
        if t[0] == "n":
            return values[t[1]]
        assert t == ("o", "("), t
        v = expr(0)
        assert toks[pos[0]] == ("o", ")")
        pos[0] += 1
        return v

    prec = {"+": 1, "-": 1, "*": 2, "/": 2}

    def expr(minp):
        left = atom()
        while True:
            t = peek()
            if t is None or t[0] != "o" or t[1] not in prec or prec[t[1]] < minp:
                return left
            pos[0] += 1
            right = expr(prec[t[1]] + 1)
            if t[1] == "+":
                left = left + right
            elif t[1] == "-":
                left = left - right
            elif t[1] == "*":
                left = left * right
            else:
                if right == 0:
                    raise Undefined()
                left = left / right

    try:
        return expr(0)
    except Undefined:
        return None


def string_programs(max_ops, ids=(1, 2, 3), with_variants=True):
    """Formula strings with up to max_ops operators: every operator sequence, operands
    cycling through the ids (so operands repeat), flat and with one or two parenthesised
    sub-ranges, plus redundant-parentheses and whitespace variants."""
    seen = set()
    out = []

    def add(f):
        key = f.replace(" ", "")
        if (key, " " in f) in seen:
            return
        seen.add((key, " " in f))
        out.append(f)

    for k in range(1, max_ops + 1):
        for ops in itertools.product("+-*/", repeat=k):
            operands = [f"#{ids[i % len(ids)]}" for i in range(k + 1)]
            ranges = [None]
            for a in range(0, k + 1):
                for b in range(a + 1, k + 1):
                    if not (a == 0 and b == k):
                        ranges.append((a, b))
            combos = [(r,) if r else () for r in ranges]
            # two disjoint or nested ranges
            rs = [r for r in ranges if r]
            for r1, r2 in itertools.combinations(rs, 2):
                disjoint = r1[1] < r2[0] or r2[1] < r1[0]
                nested = (r1[0] <= r2[0] and r2[1] <= r1[1]) or (r2[0] <= r1[0] and r1[1] <= r2[1])
                if (disjoint or nested) and r1 != r2:
                    combos.append((r1, r2))
            for rset in combos:
                opens = [0] * (k + 1)
                closes = [0] * (k + 1)
                for a, b in rset:
                    opens[a] += 1
                    closes[b] += 1
                parts = []
                for i in range(k + 1):
                    parts.append("(" * opens[i] + operands[i] + ")" * closes[i])
                    if i < k:
                        parts.append(ops[i])
                add(" ".join(parts))
                if with_variants and len(rset) <= 1:
                    add("".join(parts))  # no whitespace
                    if not rset:
                        add("( " + " ".join(parts) + " )")  # redundant outer parentheses
                        add(" ".join([f"({parts[0]})"] + parts[1:]))  # redundant parentheses around one operand
    return out


def run_string(formula, inputs, nones_are_zeros=False, ids=(1, 2, 3)):
    out = []
    with virtual_loop() as loop:
        reg = ChannelRegistry(name="verif")
        sub = Broadcast(name="subscriptions")
        sub_rx = sub.new_receiver()
        b = ResampledFormulaBuilder("ns", formula, reg, sub.new_sender(), ComponentMetricId.ACTIVE_POWER, Quantity)
        engine = b.from_string(formula, nones_are_zeros=nones_are_zeros)
        rx = engine.new_receiver()
        loop.settle()
        used = sorted({r.component_id for r in b._resampler_requests})
        senders = {}
        for cid in used:
            name = ComponentMetricRequest("ns", cid, ComponentMetricId.ACTIVE_POWER, None).get_channel_name()
            senders[cid] = reg.get_or_create(Sample[Quantity], name).new_sender()
        requested = []
        while len(sub_rx):
            requested.append(sub_rx.consume().component_id)
        for k, vals in enumerate(inputs):
            for cid in used:
                v = vals[cid]
                push(senders[cid], Sample(ts(k), None if v is None else Quantity(float(v))))
            loop.settle()
            while len(rx):
                s = rx.consume()
                out.append((int((s.timestamp - T0).total_seconds()), None if s.value is None else s.value.base_value))
    return out, sorted(set(requested)), used


def close(a, b):
    if a is None or b is None:
        return a is None and b is None
    return math.isclose(a, b, rel_tol=1e-9, abs_tol=1e-9)


# ---------------------------------------------------------------------------
# string formulas started through LogicalMeter.start_formula (engine pool), then composed
# ---------------------------------------------------------------------------

METER_METRICS = [ComponentMetricId.ACTIVE_POWER, ComponentMetricId.REACTIVE_POWER]


def meter_value(metric_idx, v):
    """The value component streams of metric `metric_idx` carry when the ACTIVE_POWER streams carry `v`:
    different for every metric, so that an engine wired to the wrong metric is visible."""
    return v if metric_idx == 0 else 10.0 * v + 1.0


def run_meter(plan, inputs, ids=(1, 2), compose=True):
    """plan: list of (formula, metric_idx) handed to ONE LogicalMeter.start_formula in that order; every ordered
    pair of the returned engines (i < j) is then composed with each operator of BIN and built.
    Returns {label: [(k, value)]}, labels 's<i>' for started formulas and 'c<i>,<j>,<op>' for compositions."""
    from frequenz.sdk.timeseries.logical_meter import LogicalMeter

    outs = {}
    with virtual_loop() as loop:
        reg = ChannelRegistry(name="verif")
        sub = Broadcast(name="subscriptions")
        sub_rx = sub.new_receiver(limit=1000)
        lm = LogicalMeter(reg, sub.new_sender())
        started = [lm.start_formula(p[0], METER_METRICS[p[1]], **({"nones_are_zeros": p[2]} if len(p) > 2 else {})) for p in plan]
        engines = {f"s{i}": e for i, e in enumerate(started)}
        for i in range(len(started)):
            for j in range(i + 1, len(started) if compose else 0):
                for op in BIN:
                    a, b = started[i], started[j]
                    if op == "+":
                        c = a + b
                    elif op == "-":
                        c = a - b
                    elif op == "*":
                        c = a * b
                    elif op == "/":
                        c = a / b
                    elif op == "max":
                        c = a.max(b)
                    else:
                        c = a.min(b)
                    engines[f"c{i},{j},{op}"] = c.build(f"composed-{i}-{j}-{op}")
        rxs = {k: e.new_receiver(max_size=1000) for k, e in engines.items()}
        loop.settle()
        reqs = []
        while len(sub_rx):
            reqs.append(sub_rx.consume())
        senders = {}
        for r in reqs:
            key = (r.component_id, r.metric_id)
            if key not in senders:
                senders[key] = reg.get_or_create(Sample[Quantity], r.get_channel_name()).new_sender()
        for k, vals in enumerate(inputs):
            for (cid, metric), s in senders.items():
                v = vals[cid]
                if v is None:
                    push(s, Sample(ts(k), None))
                else:
                    push(s, Sample(ts(k), Quantity(v if is_missing(v) else float(meter_value(METER_METRICS.index(metric), v)))))
            loop.settle()
        for label, rx in rxs.items():
            o = []
            while len(rx):
                s = rx.consume()
                o.append((int((s.timestamp - T0).total_seconds()), None if s.value is None else s.value.base_value))
            outs[label] = o
    return outs, sorted({(r.component_id, METER_METRICS.index(r.metric_id)) for r in reqs})


def ref_meter(label, plan, vals):
    """Reference value of engine `label` for ACTIVE_POWER inputs `vals`; None when undefined."""
    def started(i):
        f, m = plan[i]
        return ref_string(f, {cid: meter_value(m, v) for cid, v in vals.items()})

    if label[0] == "s":
        return started(int(label[1:]))
    i, j, op = label[1:].split(",")
    a, b = started(int(i)), started(int(j))
    if a is None or b is None:
        return None
    if op == "+":
        return a + b
    if op == "-":
        return a - b
    if op == "*":
        return a * b
    if op == "/":
        return None if b == 0 else a / b
    return max(a, b) if op == "max" else min(a, b)
