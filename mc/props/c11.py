"""C11 — distributed power = regular target + operating-point target, in bounds (E1).

The real ``PowerManagingActor`` runs on the virtual loop; proposals, report
subscriptions and distribution results go through its real channels, system bounds are
pushed through a harness channel handed out by a stub pool installed in place of
``_data_pipeline.new_battery_pool``.  Every history over the event menu up to a depth is
executed; after every event the requests sent are compared with the reported targets.
"""
from __future__ import annotations

import asyncio
import itertools
from datetime import datetime, timedelta, timezone

from frequenz.channels import Broadcast
from frequenz.client.microgrid import ComponentCategory
from frequenz.quantities import Power

from frequenz.sdk import timeseries
from frequenz.sdk._internal._channels import ChannelRegistry
from frequenz.sdk.microgrid import _data_pipeline
from frequenz.sdk.microgrid._power_distributing import Error, PartialFailure, Request, Success
from frequenz.sdk.microgrid._power_managing import PowerManagingActor, Proposal, ReportRequest, _Report
from frequenz.sdk.timeseries._base_types import Bounds, SystemBounds

from ..core import Acc, Violation
from ..explore import pmap_acc
from ..vloop import virtual_loop

PID = "C11"
W = Power.from_watts
IDS = frozenset({1})
BOUNDS_CH: dict = {}


class StubPool:
    def __init__(self, ids):
        self.ch = BOUNDS_CH.setdefault(ids, Broadcast(name=f"bounds{sorted(ids)}", resend_latest=True))

    @property
    def _system_power_bounds(self):
        return self.ch


def _new_battery_pool(*, priority, component_ids=None, **kw):
    return StubPool(frozenset(component_ids))


BOUNDS = {
    "b1000": (-1000, 1000, 0, 0),
    "widen": (-1200, 1200, 0, 0),
    "shrink": (-500, 500, 0, 0),
    "shift": (-200, 1500, 0, 0),
    "excl": (-1000, 1000, -100, 100),
    "none": None,
    "shift-low": (-1900, 100, 0, 0),  # same width as b1000, moved down
    "shrink-excl": (-500, 500, -100, 100),  # narrow bounds with an exclusion zone
}

EVENTS = (
    [("reg", "r1", 1, p, None) for p in (-300, 300, 2000)]
    + [("reg", "r2", 3, None, (-100, 100)), ("reg", "r2", 3, 50, None)]
    + [("op", "o1", 2, p, None) for p in (-300, 0, 500)]
    + [("op", "o1", 2, None, None)]  # the operating-point actor withdraws (neither power nor bounds)
    + [("bounds", k) for k in ("widen", "shrink", "shift", "b1000", "none")]
    + [("result", k) for k in ("success", "partial", "error", "partial-old")]
    + [("expire",)]
)
EVENTS_T = EVENTS + [("bounds", "excl"), ("reg", "r1", 1, 50, None), ("op", "o2", 4, None, (-100, 600)), ("op", "o1", 2, 200, None),
                     ("reg", "r1", 1, None, None)]


OLD_STAMPED = {"shrink", "shift"}  # delivered with a timestamp older than the previous message's


# a deeper pass over a reduced alphabet (bounds of equal width moved against each other, a regular preference that is
# clamped by them, an operating-point preference, a repeated bounds message)
DEEP_EVENTS = [("reg", "r1", 1, 2000, None), ("reg", "r1", 1, 300, None), ("op", "o1", 2, 500, None), ("op", "o1", 2, None, None),
               ("bounds", "b1000"), ("bounds", "shift-low"), ("bounds", "shrink")]
# second reduced alphabet: an exclusion zone next to an operating point close to the bound; a higher-priority band that
# ends up entirely below the system bounds once they shrink
DEEP_EVENTS_B = [("bounds", "shrink-excl"), ("reg", "r2", 3, None, (-900, -700)), ("reg", "r1", 1, -300, None), ("reg", "r1", 1, 300, None),
                 ("op", "o1", 2, 500, None), ("bounds", "shrink"), ("bounds", "b1000")]


def sb(spec, loop, old=False):
    # SystemBounds.timestamp is the newest sample time among the working components: it moves backwards when the
    # component with the freshest sample drops out (which is also when the bounds shrink)
    ts = loop.wall_now() - (timedelta(seconds=30) if old else timedelta(0))
    if spec is None:
        return SystemBounds(timestamp=ts, inclusion_bounds=None, exclusion_bounds=None)
    lo, hi, el, eu = spec
    return SystemBounds(timestamp=ts, inclusion_bounds=Bounds(W(lo), W(hi)), exclusion_bounds=Bounds(W(el), W(eu)))


def run_history(hist, start="warm"):
    """Returns list of per-event observations: dict(event, requests, reg_target, op_target, bounds)."""
    saved = _data_pipeline.new_battery_pool
    _data_pipeline.new_battery_pool = _new_battery_pool
    obs = []
    try:
        with virtual_loop(wall=True) as loop:
            BOUNDS_CH.clear()
            pch, sch, rqch, rsch = (Broadcast(name=n) for n in ("proposals", "subs", "requests", "results"))
            reg = ChannelRegistry(name="reports")
            rq = rqch.new_receiver()
            pm = PowerManagingActor(pch.new_receiver(), sch.new_receiver(), rqch.new_sender(), rsch.new_receiver(), reg,
                                    component_category=ComponentCategory.BATTERY)
            pm.start()
            loop.settle()
            subs = {}
            sub_sender = sch.new_sender()
            for op, prio in ((False, 1), (True, 2)):
                r = ReportRequest(source_id="harness", component_ids=IDS, priority=prio, set_operating_point=op)
                loop.create_task(sub_sender.send(r))
                loop.settle()
                subs[op] = reg.get_or_create(_Report, r.get_channel_name()).new_receiver()
            # a second, unrelated component group subscribes to reports afterwards (its reports are not looked at)
            other = ReportRequest(source_id="other-group", component_ids=frozenset({2}), priority=1, set_operating_point=False)
            loop.create_task(sub_sender.send(other))
            loop.settle()
            ps = pch.new_sender()
            rs = rsch.new_sender()
            bs = BOUNDS_CH[IDS].new_sender()
            latest = {False: None, True: None}
            cur_bounds = [None]
            last_request = [None]
            all_requests = []

            def fire(e):
                if e[0] in ("reg", "op"):
                    _, src, prio, pref, bnds = e
                    p = Proposal(
                        source_id=src, preferred_power=None if pref is None else W(pref),
                        bounds=timeseries.Bounds(None if bnds is None else W(bnds[0]), None if bnds is None else W(bnds[1])),
                        component_ids=IDS, priority=prio, creation_time=loop.time(), set_operating_point=e[0] == "op",
                    )
                    loop.create_task(ps.send(p))
                    loop.settle()
                elif e[0] == "bounds":
                    cur_bounds[0] = BOUNDS[e[1]]
                    loop.create_task(bs.send(sb(BOUNDS[e[1]], loop, old=e[1] in OLD_STAMPED)))
                    loop.settle()
                elif e[0] == "result":
                    req = last_request[0] or Request(power=W(0), component_ids=set(IDS))
                    if e[1] == "partial-old" and len(all_requests) >= 2:
                        req = all_requests[-2]  # a late result for a request that has been superseded meanwhile
                    if e[1] == "success":
                        res = Success(request=req, succeeded_power=req.power, succeeded_components=set(IDS), excess_power=W(0))
                    elif e[1] in ("partial", "partial-old"):
                        res = PartialFailure(request=req, succeeded_power=W(0), succeeded_components=set(), failed_power=req.power,
                                             failed_components=set(IDS), excess_power=W(0))
                    else:
                        res = Error(request=req, msg="injected")
                    loop.create_task(rs.send(res))
                    loop.settle()
                else:  # expire: let every proposal get older than the maximum age (60 s)
                    loop.advance(61.0)

            def collect(e):
                reqs = []
                while len(rq):
                    r = rq.consume()
                    last_request[0] = r
                    all_requests.append(r)
                    reqs.append(r.power.as_watts())
                for op, rx in subs.items():
                    while len(rx):
                        latest[op] = rx.consume()
                tgt = {op: (None if r is None or r.target_power is None else r.target_power.as_watts()) for op, r in latest.items()}
                obs.append({"event": e, "requests": reqs, "reg_target": tgt[False], "op_target": tgt[True], "bounds": cur_bounds[0],
                            "bounds_known": cur_bounds[0] is not None})

            if start == "warm":
                fire(("bounds", "b1000"))
                collect(("bounds", "b1000"))
            for e in hist:
                fire(e)
                collect(e)
            loop.create_task(pm.stop())
            loop.settle()
            unhandled = list(loop.unhandled)
    finally:
        _data_pipeline.new_battery_pool = saved
    return obs, unhandled


def oracle(obs):
    v = []
    for i, o in enumerate(obs):
        for k, req in enumerate(o["requests"]):
            is_last = k == len(o["requests"]) - 1
            exp = (o["reg_target"] or 0.0) + (o["op_target"] or 0.0)
            if is_last and abs(req - exp) > 1e-6:
                v.append(("request_equals_sum_of_reported_targets",
                          {"event_index": i, "event": list(o["event"]), "request": req, "reported_regular_target": o["reg_target"],
                           "reported_operating_point_target": o["op_target"]}))
            b = o["bounds"]
            if b is not None and not (b[0] - 1e-6 <= req <= b[1] + 1e-6):
                v.append(("request_within_latest_inclusion_bounds", {"event_index": i, "event": list(o["event"]), "request": req, "bounds": list(b[:2])}))
            if b is None and abs(req) > 1e-6:
                v.append(("request_zero_when_bounds_unavailable", {"event_index": i, "event": list(o["event"]), "request": req}))
        if v:
            break
    return v


CLAUSES = ["request_equals_sum_of_reported_targets", "request_within_latest_inclusion_bounds", "request_zero_when_bounds_unavailable"]


def shard(args) -> Acc:
    tier, prefix, depth, start = args
    acc = Acc()
    ev = EVENTS if tier == "quick" else EVENTS_T
    if start == "deep":
        ev, start = DEEP_EVENTS, "warm"
    elif start == "deep-b":
        ev, start = DEEP_EVENTS_B, "warm"
    for tail in itertools.product(ev, repeat=depth):
        hist = list(prefix) + list(tail)
        obs, unhandled = run_history(hist, start)
        viol = oracle(obs)
        if unhandled:
            viol.append(("no_unhandled_exception", {"unhandled": unhandled[:2]}))
        acc.evaluations += 1
        acc.traces += 1
        acc.transitions += len(hist)
        nreq = sum(len(o["requests"]) for o in obs)
        acc.counters["requests_checked"] += nreq
        for c in CLAUSES:
            acc.clauses[c] += nreq
        kinds = {e[0] for e in hist}
        if {"reg", "op"} <= kinds and ("bounds" in kinds or "result" in kinds or "expire" in kinds):
            acc.nontrivial += 1
        acc.outcome(f"requests={nreq}")
        acc.state(repr((start, hist)))
        if acc.evaluations % 4000 == 1:
            acc.sample({"start": start, "history": [list(e) for e in hist],
                        "observations": [{k: (list(v) if isinstance(v, tuple) else v) for k, v in o.items()} for o in obs]})
        for clause, detail in viol:
            acc.violation(Violation(clause, {"start": start, "history": [list(e) for e in hist]}, detail))
    return acc


def run(tier: str, seed: int, workers: int):
    ev = EVENTS if tier == "quick" else EVENTS_T
    shards = []
    if tier == "quick":
        for e1, e2 in itertools.product(ev, ev):
            shards.append((tier, [e1, e2], 2, "warm"))  # depth 4
        for e1 in ev:
            shards.append((tier, [e1], 2, "cold"))  # depth 3 without initial bounds
    else:
        for e1, e2 in itertools.product(EVENTS, EVENTS):
            shards.append(("quick", [e1, e2], 3, "warm"))  # depth 5 over the quick alphabet (first element selects the alphabet)
        for e1, e2 in itertools.product(ev, ev):
            shards.append((tier, [e1, e2], 2, "warm"))  # depth 4 over the larger alphabet
        for e1, e2 in itertools.product(ev, ev):
            shards.append((tier, [e1, e2], 2, "cold"))
    for e1, e2 in itertools.product(DEEP_EVENTS, DEEP_EVENTS):
        shards.append((tier, [e1, e2], 3 if tier == "quick" else 5, "deep"))  # depth 5 / 7 over the reduced alphabet
    for e1, e2 in itertools.product(DEEP_EVENTS_B, DEEP_EVENTS_B):
        shards.append((tier, [e1, e2], 2 if tier == "quick" else 4, "deep-b"))  # depth 4 / 6 over the second one
    if seed:
        import random

        random.Random(seed).shuffle(shards)
    acc = pmap_acc(shard, shards, workers)
    meta = {
        "rule": "every history to depth 4 (quick) / 5 (thorough; depth 4 for the events only the thorough menu has) over the event menu {regular proposal (2 actors: preferred -300/300/2000, "
        "bounds-only, 50), operating-point proposal (-300/0/500, withdrawal; thorough also 200 and a regular withdrawal), system bounds widen / shrink / shift / back / unavailable, "
        "distribution result Success / PartialFailure / Error for the latest request and a late PartialFailure for the previous one, expiry (+61 s)} from a warm start (bounds +-1000 delivered, one regular "
        "and one operating-point report subscription) and to depth 3-4 from a cold start (no bounds yet); plus every history to depth 5 (quick) / 7 over a reduced alphabet of 7 events "
        "(regular preference 2000 / 300, operating-point preference 500 / withdrawal, bounds +-1000 / -1900..100 / +-500) and to depth 4 / 6 over "
        "a second one (bounds +-500 with an exclusion zone of +-100, a higher-priority band -900..-700, regular preference -300 / 300, "
        "operating-point preference 500, bounds +-500 / +-1000) from the warm start; non-trivial = history with a "
        "regular and an operating-point proposal and at least one bounds/result/expiry event",
        "assumptions": [
            "system inclusion bounds contain 0 W (lower <= 0 <= upper), as C03 states the domain of system bounds and as every pool produces them",
            "a second component group has subscribed to reports after the first one (nothing else happens in it)",
            "the two report subscribers use different priorities (the report channel name does not include the group)",
            "sent-only: the oracle constrains requests that are sent; the last request of an event is compared with the targets in the "
            "latest reports at the quiescent point that ends the event (a target not yet reported counts as 0)",
            "events are injected at quiescence (asyncio FIFO order; Broadcast.send never suspends, so handlers do not interleave)",
        ],
        "exhaustive": True,
        "bounds": {"events": len(ev), "depth": 4 if tier == "quick" else 5},
    }
    return acc, meta


def replay(case: dict):
    hist = [tuple(tuple(x) if isinstance(x, list) else x for x in e) for e in case["history"]]
    obs, unhandled = run_history(hist, case["start"])
    return oracle(obs)
