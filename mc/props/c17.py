"""C17 — power inside a pool's advertised bounds is never rejected as out of bounds (E3).

Advertised bounds: the real ``PowerBoundsCalculator`` (what the battery pool streams).
Enforced bounds: the real ``BatteryManager`` (``distribute_power`` answering
``OutOfBounds`` or not) on the same component data.
"""
from __future__ import annotations

import itertools

from frequenz.client.microgrid import ComponentMetricId as M

from frequenz.sdk.microgrid._power_distributing.result import OutOfBounds
from frequenz.sdk.timeseries.battery_pool._component_metrics import ComponentMetricsData
from frequenz.sdk.timeseries.battery_pool._metric_calculator import PowerBoundsCalculator

from .. import fakes
from ..core import Acc, Violation
from ..explore import pmap_acc
from . import c01, dist, mgr

PID = "C17"
TOL = 1e-6


def metrics_for(groups):
    md = {}
    for gi, g in enumerate(groups):
        for bi, b in enumerate(g.bats):
            cid = 100 * (gi + 1) + bi
            md[cid] = ComponentMetricsData(cid, fakes.T0, {
                M.POWER_INCLUSION_LOWER_BOUND: -b.incl * b.lower_scale,
                M.POWER_EXCLUSION_LOWER_BOUND: -b.excl * b.lower_scale,
                M.POWER_EXCLUSION_UPPER_BOUND: b.excl,
                M.POWER_INCLUSION_UPPER_BOUND: b.incl,
            })
        for ii, i in enumerate(g.invs):
            cid = 100 * (gi + 1) + 10 + ii
            md[cid] = ComponentMetricsData(cid, fakes.T0, {
                M.ACTIVE_POWER_INCLUSION_LOWER_BOUND: -i.incl * i.lower_scale,
                M.ACTIVE_POWER_EXCLUSION_LOWER_BOUND: -i.excl * i.lower_scale,
                M.ACTIVE_POWER_EXCLUSION_UPPER_BOUND: i.excl,
                M.ACTIVE_POWER_INCLUSION_UPPER_BOUND: i.incl,
            })
    return md


def check_config(groups):
    """Returns (violations, n_points, info)."""
    v = []
    with mgr.BatterySession(groups) as s:
        calc = PowerBoundsCalculator(set(s.all_bats))
        adv = calc.calculate(metrics_for(groups), set(s.all_bats))
        AL, AU = adv.inclusion_bounds.lower.as_watts(), adv.inclusion_bounds.upper.as_watts()
        EL, EU = adv.exclusion_bounds.lower.as_watts(), adv.exclusion_bounds.upper.as_watts()
        # enforced bounds as revealed by the OutOfBounds answer to an absurd request
        r = s.request(10 * (abs(AU) + abs(AL)) + 12345.0, adjust_power=False)
        info = {"advertised": [AL, EL, EU, AU]}
        if not isinstance(r["result"], OutOfBounds):
            v.append(("absurd_request_is_out_of_bounds", {"result": repr(r["result"])[:200]}))
        else:
            eb = r["result"].bounds
            info["enforced"] = [eb.inclusion_lower, eb.exclusion_lower, eb.exclusion_upper, eb.inclusion_upper]
            if abs(eb.inclusion_lower - AL) > TOL or abs(eb.inclusion_upper - AU) > TOL:
                v.append(("advertised_inclusion_equals_enforced", dict(info)))
        # reference: documented aggregation
        for sign, (lo_i, lo_e) in ((1, (AU, EU)), (-1, (-AL, -EL))):
            rs = [dist.ref_group(g, sign) for g in groups]
            if abs(sum(r_["adv_incl"] for r_ in rs) - lo_i) > TOL or abs(sum(r_["adv_excl"] for r_ in rs) - lo_e) > TOL:
                v.append(("advertised_bounds_follow_documented_aggregation",
                          {"sign": sign, "advertised": [lo_e, lo_i],
                           "reference": [sum(r_["adv_excl"] for r_ in rs), sum(r_["adv_incl"] for r_ in rs)]}))
        pts = set()
        for b in (AL, EL, EU, AU):
            pts |= {b - 1, b, b + 1}
        pts |= {(EU + AU) / 2, (EL + AL) / 2}
        n = 0
        for p in sorted(pts):
            if abs(p) < 1e-9:
                continue
            inside = AL - 1e-9 <= p <= AU + 1e-9 and not (EL + 1e-9 < p < EU - 1e-9)
            for adj in (True, False):
                r = s.request(p, adjust_power=adj)
                n += 1
                rejected = isinstance(r["result"], OutOfBounds)
                if inside and rejected:
                    v.append(("admitted_power_not_rejected", {"power": p, "adjust_power": adj, **info}))
                if inside and r["error"]:
                    v.append(("admitted_power_processed", {"power": p, "error": r["error"]}))
                if not adj and not inside and not rejected:
                    # informational only: the property does not require rejection outside
                    pass
            if inside:
                sign = 1 if p > 0 else -1
                minsum = sum(dist.ref_group(g, sign)["min_power"] for g in groups)
                if abs(p) < minsum - 1e-9:
                    v.append(("admitted_power_at_least_sum_of_group_minimums", {"power": p, "sum_min": minsum, **info}))
    return v, n, info


CLAUSES = ["absurd_request_is_out_of_bounds", "advertised_inclusion_equals_enforced",
           "advertised_bounds_follow_documented_aggregation", "admitted_power_not_rejected",
           "admitted_power_processed", "admitted_power_at_least_sum_of_group_minimums"]


def asymmetric(g, bat_scale, inv_scale):
    """The same group with lower bounds scaled (exclusion and inclusion zone asymmetric around zero)."""
    from dataclasses import replace

    return dist.GroupSpec(tuple(replace(b, lower_scale=bat_scale) for b in g.bats),
                          tuple(replace(i, lower_scale=inv_scale) for i in g.invs))


def shard(args) -> Acc:
    tier, n, lo, hi = args
    acc = Acc()
    firsts = c01.first_specs(tier, 1 if n < 3 else 3)[lo:hi]
    if n < 3:
        # bounds that are not symmetric around zero: on the batteries, on the inverters
        # (scale 0: a battery that reports a discharge bound of exactly 0 W, e.g. because it is empty)
        extra = [asymmetric(g, bs, is_) for g in firsts for bs, is_ in ((0.5, 1.0), (1.0, 0.5), (0.0, 1.0))
                 if all(b.lower_scale == 1.0 for b in g.bats)]
        # one battery of a multi-battery group only (its neighbour behind the same inverter keeps symmetric bounds)
        from dataclasses import replace as _r

        extra += [dist.GroupSpec((g.bats[0],) + tuple(_r(b, lower_scale=sc) for b in g.bats[1:]), g.invs)
                  for g in firsts for sc in (0.0, 0.5) if len(g.bats) > 1 and all(b.lower_scale == 1.0 for b in g.bats)]
        firsts = firsts + [g for g in extra if dist.consistent([g])]
    if n == 1:
        combos = [()]
    elif n == 2:
        combos = [(g,) for g in c01.other_specs(tier, 2)]
    else:
        o = c01.other_specs(tier, 3)
        combos = list(itertools.combinations_with_replacement(o, 2))
    seen = set()
    for g0 in firsts:
        for rest in combos:
            groups = [g0, *rest]
            # SoC / capacity do not influence bounds: dedup on the bounds-relevant part
            key = tuple((tuple((b.excl, b.incl, b.lower_scale) for b in g.bats),
                         tuple((i.excl, i.incl, i.lower_scale) for i in g.invs)) for g in groups)
            if key in seen:
                continue
            seen.add(key)
            viol, npts, info = check_config(groups)
            acc.evaluations += npts + 1
            acc.traces += 1
            acc.transitions += npts + 1
            acc.states += 1
            shared = any(len(g.bats) > 1 or len(g.invs) > 1 for g in groups)
            if shared or len(groups) > 1:
                acc.nontrivial += 1
            for c in CLAUSES:
                acc.clauses[c] += 1
            acc.outcome(f"n={len(groups)} shared={shared} excl={'yes' if info['advertised'][2] > 0 else 'no'}")
            if acc.traces % 200 == 1:
                acc.sample({"groups": [g.describe() for g in groups], **info})
            for clause, detail in viol:
                acc.violation(Violation(clause, {"groups": [g.describe() for g in groups]}, detail))
    return acc


def run(tier: str, seed: int, workers: int):
    shards = []
    step = 24
    n1 = len(c01.first_specs(tier, 1))
    for n in ([1, 2] if tier == "quick" else [1, 2, 3]):
        nn = n1 if n < 3 else len(c01.first_specs(tier, 3))
        for lo in range(0, nn, step):
            shards.append((tier, n, lo, lo + step))
    if seed:
        import random

        random.Random(seed).shuffle(shards)
    acc = pmap_acc(shard, shards, workers)
    meta = {
        "rule": "every bounds-distinct configuration of the C01 grid (1-2 groups quick, 1-3 thorough; shared inverters = two "
        "batteries behind one inverter, shared batteries = one battery behind two inverters, 2x2) with symmetric bounds and with "
        "lower bounds scaled by 0.5 on the batteries or on the inverters (exclusion zone not symmetric around zero) or by 0 on the "
        "batteries (a discharge bound of exactly 0 W); per configuration the real PowerBoundsCalculator output is compared with the real "
        "BatteryManager's answers for every power on, one below and one above each advertised bound, with adjust_power "
        "True and False; non-trivial = more than one group or a shared inverter/battery",
        "assumptions": [
            "decided on the stated grid of bound values",
            "ComponentPoolStatusTracker stubbed (all batteries working); same complete component data on both sides",
            "enforced bounds are read from the OutOfBounds result of an absurdly large request",
        ],
        "exhaustive": True,
        "bounds": {"groups": [1, 2] if tier == "quick" else [1, 2, 3]},
    }
    return acc, meta


def replay(case: dict):
    groups = [dist.group_from_json(g) for g in case["groups"]]
    viol, _, _ = check_config(groups)
    return viol
