"""C20 — each component message reaches every subscribed metric stream exactly once (E1).

The real ``DataSourcingActor`` runs on the virtual loop over the fake microgrid API and
a real ``ChannelRegistry``.  Harness receivers are attached to every registry channel a
request of the plan names *before* anything happens, so the observer misses nothing.
All interleavings of subscription requests (issue order kept) and data messages are
explored; injecting the next event between two loop iterations is a deviation.
"""
from __future__ import annotations

from datetime import timedelta

from frequenz.channels import Broadcast
from frequenz.client.microgrid import Component, ComponentCategory, ComponentMetricId as M, Connection, InverterType
from frequenz.quantities import Quantity

from frequenz.sdk._internal._channels import ChannelRegistry
from frequenz.sdk.microgrid._data_sourcing import ComponentMetricRequest, DataSourcingActor
from frequenz.sdk.timeseries import Sample

from .. import fakes
from ..core import Acc
from ..explore import Chooser, Observation, determinism_selfcheck, explore, replay_choices
from ..vloop import install_ordered_wait, uninstall_ordered_wait, virtual_loop

PID = "C20"

COMPONENTS = {
    Component(1, ComponentCategory.GRID), Component(2, ComponentCategory.METER),
    Component(8, ComponentCategory.INVERTER, InverterType.BATTERY), Component(9, ComponentCategory.BATTERY),
    Component(12, ComponentCategory.EV_CHARGER),
}


CONNECTIONS = {Connection(1, 2), Connection(2, 8), Connection(8, 9), Connection(2, 12)}


def message(cid, k):
    ts = fakes.T0 + timedelta(seconds=k)
    if cid == 2:
        return fakes.meter(2, ts=ts, power=100.0 + k, reactive=200.0 + k, frequency=50.0 + k / 10.0, current=(1.0 + k, 2.0, 3.0))
    if cid == 8:
        return fakes.inv(8, ts=ts, power=300.0 + k, iu=1000.0 + k)
    if cid == 9:
        return fakes.bat(9, ts=ts, soc=40.0 + k, cap=5000.0 + k)
    return fakes.ev(12, ts=ts, power=400.0 + k)


def expected_value(cid, metric, k):
    return {
        (2, M.ACTIVE_POWER): 100.0 + k, (2, M.REACTIVE_POWER): 200.0 + k, (2, M.FREQUENCY): 50.0 + k / 10.0,
        (2, M.CURRENT_PHASE_1): 1.0 + k,
        (8, M.ACTIVE_POWER): 300.0 + k, (8, M.ACTIVE_POWER_INCLUSION_UPPER_BOUND): 1000.0 + k,
        (9, M.SOC): 40.0 + k, (9, M.CAPACITY): 5000.0 + k,
        (12, M.ACTIVE_POWER): 400.0 + k,
    }[(cid, metric)]


# a plan = (requests in issue order, {component: number of messages})
START = fakes.T0 - timedelta(hours=1)
PLANS = {
    # (the request for the unknown component 99 sits in the middle: requests behind it must be served all the same)
    "meter": ([("ns", 2, M.ACTIVE_POWER), ("ns", 2, M.FREQUENCY), ("ns", 99, M.ACTIVE_POWER), ("ns2", 2, M.ACTIVE_POWER), ("ns", 2, M.ACTIVE_POWER)],
              {2: 4}),
    "meter-short": ([("ns", 2, M.ACTIVE_POWER), ("ns", 2, M.REACTIVE_POWER), ("ns2", 2, M.ACTIVE_POWER)], {2: 4}),
    "two-components": ([("ns", 9, M.SOC), ("ns", 8, M.ACTIVE_POWER), ("ns", 9, M.CAPACITY)], {9: 3, 8: 2}),
    "all-categories": ([("ns", 2, M.CURRENT_PHASE_1), ("ns", 8, M.ACTIVE_POWER_INCLUSION_UPPER_BOUND), ("ns", 9, M.SOC), ("ns", 12, M.ACTIVE_POWER)],
                       {2: 1, 8: 1, 9: 1, 12: 1}),
    # the same request repeated while an earlier request of another namespace exists for the same metric
    "dup-namespaces": ([("ns", 2, M.ACTIVE_POWER), ("ns2", 2, M.ACTIVE_POWER), ("ns2", 2, M.ACTIVE_POWER), ("ns3", 2, M.ACTIVE_POWER),
                        ("ns2", 2, M.ACTIVE_POWER)], {2: 3}),
    # the same (namespace, component, metric) asked for live and with a start time: two different streams; the second is repeated
    "start-time": ([("ns", 2, M.ACTIVE_POWER), ("ns", 2, M.ACTIVE_POWER, START), ("ns", 2, M.ACTIVE_POWER, START), ("ns", 2, M.ACTIVE_POWER)],
                   {2: 3}),
    "meter-long": ([("ns", 2, M.ACTIVE_POWER), ("ns", 2, M.FREQUENCY), ("ns2", 2, M.ACTIVE_POWER), ("ns3", 2, M.REACTIVE_POWER)], {2: 5}),
}


def make_scenario(plan_name):
    reqs_spec, msgs = PLANS[plan_name]

    def scenario(ch: Chooser) -> Observation:
        def permute(k):
            import itertools

            perms = list(itertools.permutations(range(k)))
            return list(perms[ch.choose(len(perms), ("done-set-order", k), dev=True)])

        install_ordered_wait(permute)
        try:
            return _run(ch)
        finally:
            uninstall_ordered_wait()

    def _run(ch: Chooser) -> Observation:
        obs = Observation()
        with virtual_loop() as loop, fakes.fake_microgrid(COMPONENTS, CONNECTIONS) as cm:
            api = cm.api_client
            reg = ChannelRegistry(name="verif")
            reqch = Broadcast(name="requests")
            actor = DataSourcingActor(reqch.new_receiver(), reg)
            actor.start()
            loop.settle()
            requests = [ComponentMetricRequest(sp[0], sp[1], sp[2], sp[3] if len(sp) > 3 else None) for sp in reqs_spec]
            streams = {}
            for r in requests:
                name = r.get_channel_name()
                if name not in streams:
                    streams[name] = {"rx": reg.get_or_create(Sample[Quantity], name).new_receiver(limit=100), "req": r,
                                     "subscribed_epoch": None, "got": []}
            rs = reqch.new_sender()
            sent_req = 0
            sent_msg = {c: 0 for c in msgs}
            msg_epoch = {}
            epoch = [0]
            log = []

            def enabled():
                ev = []
                if sent_req < len(requests):
                    ev.append(("request", sent_req))
                for c in sorted(msgs):
                    if sent_msg[c] < msgs[c]:
                        ev.append(("message", c))
                return ev

            def fire(e):
                nonlocal sent_req
                log.append(e)
                if e[0] == "request":
                    r = requests[e[1]]
                    loop.create_task(rs.send(r))
                    st = streams[r.get_channel_name()]
                    if st["subscribed_epoch"] is None:
                        st["subscribed_epoch"] = epoch[0]
                    sent_req += 1
                else:
                    c = e[1]
                    k = sent_msg[c]
                    api.push(message(c, k))
                    msg_epoch[(c, k)] = epoch[0]
                    sent_msg[c] += 1

            def drain():
                for st in streams.values():
                    rx = st["rx"]
                    while len(rx):
                        s = rx.consume()
                        st["got"].append((int((s.timestamp - fakes.T0).total_seconds()), None if s.value is None else s.value.base_value))

            while True:
                while not loop.quiescent():
                    ev = enabled()
                    if ev:
                        c = ch.choose(1 + len(ev), ("mid", tuple(ev)), dev=True)
                        if c > 0:
                            fire(ev[c - 1])
                    loop.run_iteration()
                drain()
                epoch[0] += 1
                ev = enabled()
                if not ev:
                    break
                c = ch.choose(len(ev), ("next", tuple(ev)))
                fire(ev[c])
            loop.settle()
            drain()

            viol = []
            C = obs.clauses
            for name, st in streams.items():
                r = st["req"]
                cid, metric = r.component_id, r.metric_id
                got = st["got"]
                ks = [k for k, _ in got]
                C["no_duplicates_in_order"] = C.get("no_duplicates_in_order", 0) + 1
                if any(b <= a for a, b in zip(ks, ks[1:])):
                    viol.append(("no_duplicates_in_order", {"stream": name, "timestamps": ks, "events": [list(e) for e in log]}))
                    continue
                if cid not in msgs:
                    if got:
                        viol.append(("unknown_component_streams_nothing", {"stream": name, "got": got}))
                    continue
                for k, val in got:
                    C["sample_carries_metric_value_and_timestamp"] = C.get("sample_carries_metric_value_and_timestamp", 0) + 1
                    if val is None or abs(val - expected_value(cid, metric, k)) > 1e-9:
                        viol.append(("sample_carries_metric_value_and_timestamp",
                                     {"stream": name, "message": k, "got": val, "expected": expected_value(cid, metric, k)}))
                        break
                sub = st["subscribed_epoch"]
                for k in range(sent_msg[cid]):
                    me = msg_epoch[(cid, k)]
                    C["subscribed_stream_gets_every_message_once"] = C.get("subscribed_stream_gets_every_message_once", 0) + 1
                    if sub is not None and me > sub and k not in ks:
                        viol.append(("subscribed_stream_gets_every_message_once",
                                     {"stream": name, "missing_message": k, "received": ks, "events": [list(e) for e in log]}))
                        break
                    if (sub is None or me < sub) and k in ks:
                        viol.append(("no_sample_for_messages_before_the_subscription",
                                     {"stream": name, "message": k, "received": ks, "events": [list(e) for e in log]}))
                        break
            if loop.unhandled:
                viol.append(("no_unhandled_exception", {"unhandled": loop.unhandled[:2]}))
            obs.violations = viol
            obs.events = len(log)
            obs.outcome = repr(tuple(sorted((n[-60:], tuple(k for k, _ in st["got"])) for n, st in streams.items())))
            obs.nontrivial = any(e[0] == "message" for e in log[: max(1, len(log) - sum(msgs.values()))]) and len(streams) >= 2
            obs.state_keys = [repr((sent_req, tuple(sorted(sent_msg.items()))))]
            obs.sample = {"plan": plan_name, "events": [list(e) for e in log],
                          "received": {n[-70:]: [k for k, _ in st["got"]] for n, st in streams.items()}}
            loop.create_task(actor.stop())
            loop.settle()
        return obs

    return scenario


# -- every supported metric of every category: the sample carries that metric's value -----------


def all_metrics_case():
    """One component per category, every metric the SDK supports for it, two messages whose fields
    all carry different values; the expected value of each metric is written down here by field name,
    independently of the SDK's extraction tables."""
    import math

    from frequenz.sdk.microgrid._data_sourcing import microgrid_api_source as src

    T = fakes.T0

    def three(base):
        return (base + 1, base + 2, base + 3)

    def msgs(k):
        ts = T + timedelta(seconds=k)
        o = 1000.0 * k
        meter = fakes.meter(2, ts=ts, power=o + 10, per_phase=three(o + 20), current=three(o + 30), voltage=three(o + 40), reactive=o + 50, frequency=o + 60)
        meter = type(meter)(**{**meter.__dict__, "reactive_power_per_phase": three(o + 70)})
        inv = fakes.inv(8, ts=ts, power=o + 110, il=-(o + 120), el=-(o + 130), eu=o + 140, iu=o + 150)
        inv = type(inv)(**{**inv.__dict__, "active_power_per_phase": three(o + 160), "current_per_phase": three(o + 170),
                           "voltage_per_phase": three(o + 180), "reactive_power": o + 190, "reactive_power_per_phase": three(o + 200),
                           "frequency": o + 210})
        bat = fakes.bat(9, ts=ts, soc=o + 310, cap=o + 320, il=-(o + 330), el=-(o + 340), eu=o + 350, iu=o + 360, sl=o + 370, su=o + 380)
        bat = type(bat)(**{**bat.__dict__, "temperature": o + 390})
        ev = fakes.ev(12, ts=ts, power=o + 410, current=three(o + 420), voltage=three(o + 430))
        ev = type(ev)(**{**ev.__dict__, "active_power_per_phase": three(o + 440), "reactive_power": o + 450,
                         "reactive_power_per_phase": three(o + 460), "frequency": o + 470})
        return {2: meter, 8: inv, 9: bat, 12: ev}

    def expected(msg, metric):
        n = metric.name
        if n.endswith(("_PHASE_1", "_PHASE_2", "_PHASE_3")):
            idx = int(n[-1]) - 1
            base = n[: -len("_PHASE_1")].lower()
            return getattr(msg, base + "_per_phase")[idx]
        field = {
            "ACTIVE_POWER": "active_power", "REACTIVE_POWER": "reactive_power", "FREQUENCY": "frequency", "SOC": "soc",
            "SOC_LOWER_BOUND": "soc_lower_bound", "SOC_UPPER_BOUND": "soc_upper_bound", "CAPACITY": "capacity", "TEMPERATURE": "temperature",
            "POWER_INCLUSION_LOWER_BOUND": "power_inclusion_lower_bound", "POWER_EXCLUSION_LOWER_BOUND": "power_exclusion_lower_bound",
            "POWER_EXCLUSION_UPPER_BOUND": "power_exclusion_upper_bound", "POWER_INCLUSION_UPPER_BOUND": "power_inclusion_upper_bound",
            "ACTIVE_POWER_INCLUSION_LOWER_BOUND": "active_power_inclusion_lower_bound",
            "ACTIVE_POWER_EXCLUSION_LOWER_BOUND": "active_power_exclusion_lower_bound",
            "ACTIVE_POWER_EXCLUSION_UPPER_BOUND": "active_power_exclusion_upper_bound",
            "ACTIVE_POWER_INCLUSION_UPPER_BOUND": "active_power_inclusion_upper_bound",
        }[n]
        return getattr(msg, field)

    tables = {2: src._MeterDataMethods, 8: src._InverterDataMethods, 9: src._BatteryDataMethods, 12: src._EVChargerDataMethods}
    viol = []
    n_streams = 0
    with virtual_loop() as loop, fakes.fake_microgrid(COMPONENTS, CONNECTIONS) as cm:
        api = cm.api_client
        reg = ChannelRegistry(name="verif")
        reqch = Broadcast(name="requests")
        actor = DataSourcingActor(reqch.new_receiver(), reg)
        actor.start()
        loop.settle()
        rs = reqch.new_sender()
        streams = []
        for cid, table in tables.items():
            for metric in table:
                r = ComponentMetricRequest("ns", cid, metric, None)
                rx = reg.get_or_create(Sample[Quantity], r.get_channel_name()).new_receiver(limit=10)
                streams.append((cid, metric, rx))
                loop.create_task(rs.send(r))
                loop.settle()
        sent = {}
        for k in (1, 2, 3):
            m = msgs(k)
            if k == 3:
                # a message in which some metrics are "not measured" (NaN): the sample still carries that value
                m[2] = type(m[2])(**{**m[2].__dict__, "frequency": math.nan, "reactive_power": math.nan})
                m[9] = type(m[9])(**{**m[9].__dict__, "temperature": math.nan, "soc": math.nan})
            for cid, msg in m.items():
                api.push(msg)
                sent[(cid, k)] = msg
            loop.settle()
        for cid, metric, rx in streams:
            n_streams += 1
            got = []
            while len(rx):
                s_ = rx.consume()
                got.append((int((s_.timestamp - T).total_seconds()), None if s_.value is None else s_.value.base_value))
            exp = [(k, expected(sent[(cid, k)], metric)) for k in (1, 2, 3)]

            def same(g, e):
                return g is not None and ((math.isnan(g) and math.isnan(e)) or math.isclose(g, e))

            if len(got) != 3 or any(g[0] != e[0] or not same(g[1], e[1]) for g, e in zip(got, exp)):
                viol.append(("sample_carries_metric_value_and_timestamp", {"component": cid, "metric": metric.name, "got": got, "expected": exp}))
        loop.create_task(actor.stop())
        loop.settle()
    return viol, n_streams


def _mkcase(plan):
    return lambda choices: {"plan": plan, "choices": list(choices)}


def shard(args) -> Acc:
    plan, bound = args
    return explore(make_scenario(plan), bound, _mkcase(plan), workers=1)


def run(tier: str, seed: int, workers: int):
    from ..explore import pmap_acc

    if tier == "quick":
        plans = [("meter", 1), ("meter-short", 1), ("two-components", 1), ("all-categories", 0), ("dup-namespaces", 1), ("start-time", 1)]
    else:
        plans = [("meter", 2), ("meter-short", 2), ("two-components", 2), ("all-categories", 1), ("meter-long", 1), ("dup-namespaces", 2), ("start-time", 2)]
    determinism_selfcheck(make_scenario("meter-short"))
    acc = Acc()
    from ..core import Violation

    viol, n_streams = all_metrics_case()
    acc.evaluations += 1
    acc.traces += 1
    acc.transitions += 2 * 4 + n_streams
    acc.clauses["sample_carries_metric_value_and_timestamp"] += 2 * n_streams
    acc.counters["metric_streams_checked"] = n_streams
    for clause, detail in viol:
        acc.violation(Violation(clause, {"plan": "all-metrics"}, detail))
    # the per-plan trees are large: explore each with the parallel explorer
    for plan, bound in plans:
        acc.merge(explore(make_scenario(plan), bound, _mkcase(plan), workers=workers))
    meta = {
        "rule": "per plan (a list of subscription requests in issue order - two metrics and two namespaces of one component, an exact "
        "duplicate, an unknown component; the same subscription with and without a start time; two components; one component per category - and a number of data messages per component): "
        "every interleaving of requests and messages injected at quiescence, plus injection between two loop iterations and "
        "asyncio.wait done-set orders as deviations up to the bound; non-trivial = a message is delivered before the last request and "
        "there are at least two streams; plus one run subscribing every metric the SDK supports for a meter, an inverter, a battery "
        "and an EV charger, with messages whose fields all differ, each stream compared with the field named by the metric",
        "assumptions": [
            "a stream must carry a message when its (first) request was injected in an earlier quiescent phase than the message; must not "
            "carry it when the message came in an earlier phase than the request; either is accepted when both fall in the same phase",
            "fake microgrid API client; real ChannelRegistry; harness receivers attached to the registry channels up-front",
        ],
        "exhaustive": True,
        "bounds": {"plans": [list(p) for p in plans]},
    }
    return acc, meta


def replay(case: dict):
    if case["plan"] == "all-metrics":
        return all_metrics_case()[0]
    return replay_choices(make_scenario(case["plan"]), case["choices"], case.get("labels")).violations
