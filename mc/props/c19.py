"""C19 — formulas switch to fallback components when a primary meter fails (E1).

A formula ``p + o`` whose term ``p`` has a (lazily started) fallback stream runs on the
virtual loop; every sequence of valid / missing samples on the primary and fallback
streams, the primary stream closing at any position, and the fallback sample of a
timestamp arriving before or after the primary's are enumerated.
"""
from __future__ import annotations

import itertools
import math

from frequenz.channels import Broadcast, Receiver, ReceiverError
from frequenz.quantities import Quantity

from frequenz.sdk.timeseries import Sample
from frequenz.sdk.timeseries.formula_engine._formula_engine import FormulaBuilder
from frequenz.sdk.timeseries.formula_engine._formula_steps import FallbackMetricFetcher

from ..core import Acc, Violation
from ..explore import pmap_acc
from ..vloop import Stall, virtual_loop
from . import formula as F

PID = "C19"
OTHER = 1000.0


class HarnessFallback(FallbackMetricFetcher):
    """A lazily started fallback stream over a harness channel (same contract as the
    SDK's FallbackFormulaMetricFetcher: nothing is subscribed before ``start()``)."""

    def __init__(self, chan, name="fb"):
        self._chan = chan
        self._rx = None
        self._name = name
        self.started_at = None

    @property
    def name(self):
        return self._name

    @property
    def is_running(self):
        return self._rx is not None

    def start(self):
        self._rx = self._chan.new_receiver()
        self.started_at = len(SENT_LOG[0])

    async def ready(self):
        if self._rx is None:
            self.start()
        return await self._rx.ready()

    def consume(self):
        return self._rx.consume()


SENT_LOG = [[]]


def S(t, v):
    return Sample(F.ts(t), None if v is None else Quantity(float(v)))


class FlakyReceiver(Receiver):
    """A receiver that raises a (non-terminal) ReceiverError instead of delivering its ``fail_at``-th message and
    works normally afterwards."""

    def __init__(self, inner, fail_at):
        self._inner, self._fail_at, self._n = inner, fail_at, 0

    async def ready(self):
        return await self._inner.ready()

    def consume(self):
        msg = self._inner.consume()
        n, self._n = self._n, self._n + 1
        if n == self._fail_at:
            raise ReceiverError("injected transient error", self)
        return msg

    def close(self):
        self._inner.close()


def run_case(prim, fall, order, close_at, lag=0, err_at=None):
    """prim/fall: per-timestamp values ('v' valid, None, 'nan'); order: 'pf' or 'fp' per run; lag: the formula's own
    inputs (primary and the other term) are delivered `lag` steps behind the live fallback stream."""
    L = len(prim)
    with virtual_loop() as loop:
        SENT_LOG[0] = []
        pc, fc, oc = Broadcast(name="p"), Broadcast(name="f"), Broadcast(name="o")
        fb = HarnessFallback(fc)
        b = FormulaBuilder("with-fallback", Quantity)
        prx = pc.new_receiver() if err_at is None else FlakyReceiver(pc.new_receiver(), err_at)
        b.push_metric("p", prx, nones_are_zeros=False, fallback=fb)
        b.push_oper("+")
        b.push_metric("o", oc.new_receiver(), nones_are_zeros=False)
        eng = b.build()
        rx = eng.new_receiver()
        loop.settle()
        ps, fs, os_ = pc.new_sender(), fc.new_sender(), oc.new_sender()
        out = []
        fb_seen_from = None
        stalled = False
        try:
            for step in range(L + lag):
                t = step - lag  # timestamp of the primary / other samples delivered in this step
                evs = []
                if 0 <= t < L:
                    if close_at is not None and t == close_at:
                        evs.append(("close",))
                    elif close_at is None or t < close_at:
                        evs.append(("p", prim[t]))
                # the fallback components keep streaming (valid samples) while the lagging inputs catch up
                evs.append(("f", fall[step] if step < L else "v"))
                if order == "fp":
                    evs.reverse()
                if 0 <= t < L:
                    evs.append(("o",))
                for e in evs:
                    if e[0] == "close":
                        loop.create_task(pc.close())
                    elif e[0] == "p":
                        v = e[1]
                        F.push(ps, S(t, 1.0 + t if v == "v" else (None if v is None else math.nan)))
                    elif e[0] == "f":
                        if fb.is_running and fb_seen_from is None:
                            fb_seen_from = step
                        F.push(fs, S(step, 100.0 + step if e[1] == "v" else None))
                    else:
                        F.push(os_, S(t, OTHER))
                    SENT_LOG[0].append(e)
                    loop.settle()
                while len(rx):
                    s = rx.consume()
                    out.append((int((s.timestamp - F.T0).total_seconds()), None if s.value is None else s.value.base_value - OTHER))
        except Stall:
            stalled = True
        unhandled = list(loop.unhandled)
    return out, fb_seen_from, stalled, unhandled


def oracle(prim, fall, order, close_at, out, fb_seen_from, lag=0):
    """Expected output per timestamp, with the start-up window the property allows."""
    L = len(prim)
    v = []
    got = {}
    for k, val in out:
        if k in got:
            v.append(("one_output_per_timestamp_in_order", {"duplicate_timestamp": k, "outputs": out}))
            return v
        got[k] = val
    ks = [k for k, _ in out]
    if ks != sorted(ks):
        v.append(("one_output_per_timestamp_in_order", {"outputs": out}))
        return v
    # first timestamp at which the primary is invalid or gone: the fallback is started then
    def prim_valid(t):
        return (close_at is None or t < close_at) and prim[t] == "v"

    t0 = next((t for t in range(L) if not prim_valid(t)), None)
    # bounded start-up: the fallback is started while the first failing timestamp is processed, so it
    # sees the fallback stream's sample of the following timestamp at the latest
    if t0 is not None and t0 + 1 + lag < L and (fb_seen_from is None or fb_seen_from > t0 + 1 + lag):
        v.append(("fallback_started_at_first_failure", {"first_failing_timestamp": t0, "fallback_first_seen_for": fb_seen_from, "outputs": out}))
        return v
    for t in range(L):
        pv = prim_valid(t)
        if pv:
            exp = 1.0 + t
        elif fall[t] == "v":
            exp = 100.0 + t
        else:
            exp = None
        in_startup = t0 is not None and not pv and (t == t0 or fb_seen_from is None or t < fb_seen_from
                                                     or (close_at is not None and t == close_at))
        if t not in got:
            if in_startup:
                continue
            v.append(("output_equals_primary_else_fallback", {"timestamp": t, "missing_output": True, "expected": exp, "outputs": out}))
            break
        g = got[t]
        if F.close(g, exp):
            continue
        if in_startup and g is None:
            continue
        v.append(("output_equals_primary_else_fallback", {"timestamp": t, "got": g, "expected": exp, "outputs": out,
                                                           "fallback_first_seen_for": fb_seen_from}))
        break
    return v


def check_case(prim, fall, order, close_at, lag=0, err_at=None):
    out, fb_from, stalled, unhandled = run_case(prim, fall, order, close_at, lag, err_at)
    if err_at is not None:
        # the message of that timestamp is lost to a transient error: like a missing primary value at that timestamp
        prim = [None if t == err_at else x for t, x in enumerate(prim)]
    v = oracle(prim, fall, order, close_at, out, fb_from, lag)
    if err_at is not None:
        # the error consumed one primary message, so the primary stream is one message short and the evaluator drops samples
        # until its inputs line up again: outputs may be absent for a few timestamps (the property does not say what a stream
        # looks like after a non-terminal error) - but every value that IS emitted must be the primary's if valid, else the fallback's
        v = [x for x in v if not x[1].get("missing_output")]
    if stalled:
        v.append(("execution_terminates", {}))
    return out, v


# -- the SDK's own fallback fetcher: PVPowerFormula over a PV meter and two inverters ------


def run_generated(prim, inv_b, order, close_at, lag=0, kind="pv"):
    """grid(1) - meter(2) - PV meter(3) - {PV inverters 4, 5}.  The generated PV formula is `#3` with the
    fallback formula `#4 + #5` (a real FallbackFormulaMetricFetcher, started lazily).  prim: per-timestamp
    'v' / None for the PV meter; inv_b: per-timestamp 'v' / None for inverter 5 (inverter 4 is always valid);
    lag: the meter samples are delivered `lag` steps behind the inverter streams (which keep streaming).
    kind "grid-reactive": grid(1) - meter(3) - {inverters 4, 5} and the generated grid reactive-power formula `#3`
    with fallback `#4 + #5`; every component also streams *other* metrics with values 5000 higher."""
    from frequenz.client.microgrid import Component, ComponentCategory, ComponentMetricId, Connection, InverterType
    from frequenz.quantities import Power

    from frequenz.sdk._internal._channels import ChannelRegistry
    from frequenz.sdk.microgrid._data_sourcing import ComponentMetricRequest
    from frequenz.sdk.timeseries.formula_engine._formula_generators import GridReactivePowerFormula, ProducerPowerFormula, PVPowerFormula
    from frequenz.sdk.timeseries.formula_engine._formula_generators._formula_generator import FormulaGeneratorConfig

    from .. import fakes

    comps = {Component(1, ComponentCategory.GRID), Component(2, ComponentCategory.METER), Component(3, ComponentCategory.METER),
             Component(4, ComponentCategory.INVERTER, InverterType.SOLAR), Component(5, ComponentCategory.INVERTER, InverterType.SOLAR)}
    conns = {Connection(1, 2), Connection(2, 3), Connection(3, 4), Connection(3, 5)}
    metric = "ACTIVE_POWER"
    gen_cls = PVPowerFormula
    if kind == "grid-reactive":
        comps = {c for c in comps if c.component_id != 2}
        conns = {Connection(1, 3), Connection(3, 4), Connection(3, 5)}
        metric = "REACTIVE_POWER"
        gen_cls = GridReactivePowerFormula
    if kind == "producer-chp":
        # grid(1) - meter(2) - CHP meter(3) - {CHP 4, CHP 5}: producer power is `#3` with the fallback `#4 + #5`
        comps = {Component(1, ComponentCategory.GRID), Component(2, ComponentCategory.METER), Component(3, ComponentCategory.METER),
                 Component(4, ComponentCategory.CHP), Component(5, ComponentCategory.CHP)}
        gen_cls = ProducerPowerFormula
    if kind == "grid-ev":
        # grid(1) - EV meter(3) - {EV chargers 4, 5}: grid power is `#3` with the fallback `#4 + #5`
        from frequenz.sdk.timeseries.formula_engine._formula_generators import GridPowerFormula

        comps = {Component(1, ComponentCategory.GRID), Component(3, ComponentCategory.METER),
                 Component(4, ComponentCategory.EV_CHARGER), Component(5, ComponentCategory.EV_CHARGER)}
        conns = {Connection(1, 3), Connection(3, 4), Connection(3, 5)}
        gen_cls = GridPowerFormula
    L = len(prim)
    out = []
    with virtual_loop() as loop, fakes.fake_microgrid(comps, conns):
        reg = ChannelRegistry(name="verif")
        subs = Broadcast(name="subscriptions")
        engine = gen_cls("verif-ns", reg, subs.new_sender(), FormulaGeneratorConfig(allow_fallback=True)).generate()
        rx = engine.new_receiver()
        loop.settle()
        text = str(engine)

        def chan(ns, cid):
            name = ComponentMetricRequest(ns, cid, ComponentMetricId.ACTIVE_POWER, None).get_channel_name()
            return reg.get_or_create(Sample[Quantity], name)

        # the fallback formula lives in its own namespace, known only once it is generated: find the channels by name
        def senders_for(cid):
            # (sender, offset): a stream of another metric than the formula's carries values 5000 higher
            return [(reg.get_or_create(Sample[Quantity], key).new_sender(), 0.0 if f"metric_id={metric}," in key else 5000.0)
                    for key in list(reg._channels) if f"component_id={cid}," in key]

        stalled = False
        try:
            for step in range(L + lag):
                t = step - lag  # timestamp of the meter sample delivered in this step
                evs = []
                if 0 <= t < L:
                    if close_at is not None and t == close_at:
                        evs.append(("close",))
                    elif close_at is None or t < close_at:
                        evs.append(("p", prim[t]))
                evs.append(("f",))
                if order == "fp":
                    evs.reverse()
                for e in evs:
                    if e[0] == "close":
                        for key in list(reg._channels):
                            if "component_id=3," in key:
                                loop.create_task(reg.get_or_create(Sample[Quantity], key).close())
                    elif e[0] == "p":
                        for sdr, off in senders_for(3):
                            F.push(sdr, S(t, off + 1.0 + t if e[1] == "v" else None))
                    else:
                        for sdr, off in senders_for(4):
                            F.push(sdr, S(step, off + 40.0 + step))
                        for sdr, off in senders_for(5):
                            F.push(sdr, S(step, off + 60.0 + step if (inv_b[step] if step < L else "v") == "v" else None))
                    loop.settle()
                while len(rx):
                    s_ = rx.consume()
                    out.append((int((s_.timestamp - F.T0).total_seconds()), None if s_.value is None else s_.value.base_value))
        except Stall:
            stalled = True
    return out, text, stalled


def oracle_generated(prim, inv_b, order, close_at, out, lag=0):
    L = len(prim)
    v = []

    def prim_valid(t):
        return (close_at is None or t < close_at) and prim[t] == "v"

    t0 = next((t for t in range(L) if not prim_valid(t)), None)
    got = {}
    for k, val in out:
        if k in got:
            # a timestamp of the start-up window may be emitted a second time with the value the fallback
            # delivers late for it (first None, then the true value): the property allows the delay
            if not (t0 is not None and k <= t0 + 1 + lag and got[k] is None):
                return [("one_output_per_timestamp_in_order", {"duplicate_timestamp": k, "outputs": out})]
        got[k] = val
    ks = [k for k, _ in out]
    if any(b < a for a, b in zip(ks, ks[1:])):
        return [("one_output_per_timestamp_in_order", {"outputs": out})]
    for t in range(L):
        if prim_valid(t):
            exp = 1.0 + t
        else:
            # fallback formula #4 + #5; inverter streams are configured with nones_are_zeros
            exp = 40.0 + t + (60.0 + t if inv_b[t] == "v" else 0.0)
        # start-up: the fallback engine is generated while t0 is processed; it needs the samples of a
        # following timestamp to produce its first value
        # (with lagging meter samples the freshly generated fallback engine only sees inverter samples that are
        # `lag` timestamps further on, so the window is that much longer)
        in_startup = t0 is not None and not prim_valid(t) and t <= t0 + 1 + lag
        if t not in got:
            if in_startup:
                continue
            v.append(("generated_formula_output_equals_primary_else_fallback", {"timestamp": t, "missing_output": True, "expected": exp, "outputs": out}))
            break
        if F.close(got[t], exp) or (in_startup and got[t] is None):
            continue
        v.append(("generated_formula_output_equals_primary_else_fallback", {"timestamp": t, "got": got[t], "expected": exp, "outputs": out}))
        break
    return v


def gen_shard(args) -> Acc:
    tier, L = args
    acc = Acc()
    for prim in itertools.product(["v", None], repeat=L):
        for inv_b in ((["v"] * L), (["v", None] * L)[:L]):
            for order in ("pf", "fp"):
                for close_at, lag, kind in ([(None, 0, "pv")] + [(c, 0, "pv") for c in range(1, L)] + [(None, 1, "pv"), (None, 2, "pv")]
                                            + [(None, 0, "grid-reactive"), (2, 0, "grid-reactive"), (None, 0, "producer-chp"),
                                               (None, 0, "grid-ev"), (2, 0, "grid-ev")]):
                    out, text, stalled = run_generated(list(prim), inv_b, order, close_at, lag, kind)
                    viol = oracle_generated(list(prim), inv_b, order, close_at, out, lag)
                    if stalled:
                        viol.append(("execution_terminates", {}))
                    acc.evaluations += 1
                    acc.traces += 1
                    acc.transitions += 2 * L
                    acc.clauses["generated_formula_output_equals_primary_else_fallback"] += 1
                    if any(x is None for x in prim) or close_at is not None:
                        acc.nontrivial += 1
                    acc.state(repr(("gen", kind, prim, tuple(inv_b), order, close_at, lag)))
                    acc.outcome(f"generated outputs={len(out)}")
                    if acc.evaluations % 300 == 1:
                        acc.sample({"driver": "generated", "formula": text, "primary": list(prim), "order": order, "primary_closed_at": close_at, "outputs": out})
                    for clause, detail in viol:
                        acc.violation(Violation(clause, {"driver": "generated", "primary": list(prim), "inverter_b": inv_b, "order": order,
                                                          "close_at": close_at, "lag": lag, "kind": kind}, detail,
                                                classes(prim, None, order, close_at)))
    return acc


def _dispatch(args):
    return gen_shard(args[1:]) if args[0] == "gen" else shard(args)


def classes(prim, fall, order, close_at):
    return ("primary-stream-closed",) if close_at is not None else ()


def shard(args) -> Acc:
    tier, L, first = args
    acc = Acc()
    pvals = ["v", None, "nan"]
    for rest in itertools.product(pvals, repeat=L - 1):
        prim = [first, *rest]
        for fall in itertools.product(["v", None], repeat=L):
            for order in ("pf", "fp"):
                closes = [None] + list(range(1, L)) if all(x == "v" for x in prim[2:]) or tier != "quick" else [None]
                cases = [(c, 0) for c in closes]
                if "nan" not in prim:
                    cases += [(None, 1), (None, 2)]  # the formula's inputs lag behind the live fallback stream
                cases = [(c, l, None) for c, l in cases]
                if "nan" not in prim and order == "pf":
                    cases += [(None, 0, t) for t in range(1, L) if prim[t] == "v"]  # a transient receiver error at t
                for close_at, lag, err_at in cases:
                    out, viol = check_case(prim, list(fall), order, close_at, lag, err_at)
                    acc.evaluations += 1
                    acc.traces += 1
                    acc.transitions += 3 * L
                    acc.clauses["output_equals_primary_else_fallback"] += 1
                    acc.clauses["one_output_per_timestamp_in_order"] += 1
                    if any(x != "v" for x in prim) or close_at is not None:
                        acc.nontrivial += 1
                    acc.outcome(f"outputs={len(out)} close={'yes' if close_at is not None else 'no'}")
                    acc.state(repr((prim, fall, order, close_at, lag, err_at)))
                    if acc.evaluations % 1500 == 1:
                        acc.sample({"primary": prim, "fallback": list(fall), "order": order, "primary_closed_at": close_at, "outputs": out})
                    for clause, detail in viol:
                        acc.violation(Violation(clause, {"primary": prim, "fallback": list(fall), "order": order, "close_at": close_at, "lag": lag,
                                                         "err_at": err_at},
                                                detail, classes(prim, fall, order, close_at)))
    return acc


def run(tier: str, seed: int, workers: int):
    L = 5 if tier == "quick" else 6
    shards = [(tier, L, first) for first in ["v", None, "nan"]] + [("gen", tier, 5 if tier == "quick" else 6)]
    acc = pmap_acc(_dispatch, shards, workers)
    meta = {
        "rule": "formula p + o, p with a lazily started fallback; L = 5 (quick) / 6 timestamps; primary per timestamp valid / None / NaN "
        "(all 3^L sequences), fallback per timestamp valid / None (all 2^L), fallback sample sent before or after the primary's, "
        "primary stream closed at every position, a transient receiver error in place of one valid primary message (only the emitted values are judged then), and the formula's own inputs delivered 0, 1 or 2 steps behind the live fallback stream; non-trivial = some primary sample invalid or the stream closed; plus the generated "
        "PV formula of a PV meter with two inverters (real FallbackFormulaMetricFetcher and registry): all 2^L meter sequences x "
        "inverter-missing pattern x order x (close position | meter samples 1 or 2 steps behind the inverter streams), and the generated "
        "grid reactive-power formula of a grid meter in front of two inverters (streams of other metrics carry different values) and the "
        "generated producer formula of a CHP meter in front of two CHPs",
        "assumptions": [
            "start-up delay made precise: the fallback is started at the first invalid primary timestamp t0; the output for t0, for "
            "the round in which a close is noticed, and for timestamps before the first sample the fallback stream delivers after "
            "being started may be None or absent",
            "harness fallback fetcher with the same lazy-start contract as FallbackFormulaMetricFetcher",
        ],
        "exhaustive": True,
        "bounds": {"timestamps": L},
    }
    return acc, meta


def replay(case: dict):
    if case.get("driver") == "generated":
        out, _, _ = run_generated(case["primary"], case["inverter_b"], case["order"], case["close_at"], case.get("lag", 0),
                                  case.get("kind", "pv"))
        return oracle_generated(case["primary"], case["inverter_b"], case["order"], case["close_at"], out, case.get("lag", 0))
    _, v = check_case(case["primary"], case["fallback"], case["order"], case["close_at"], case.get("lag", 0), case.get("err_at"))
    return v
