"""C03 — power manager target stays inside usable system bounds, history-free.

E3: every proposal multiset over a value menu placed on, inside and outside every
interval edge, for several system-bounds shapes -> safety of the target.
E2: breadth-first search over histories (propose / replace / clock advance + expiry) of
the real ``Matryoshka``; in every state the target must equal the one a fresh instance
computes from the live proposal set, in every insertion order.
"""
from __future__ import annotations

import collections
import itertools
from datetime import datetime, timedelta, timezone

from frequenz.quantities import Power

from frequenz.sdk import timeseries
from frequenz.sdk.microgrid._power_managing import Proposal
from frequenz.sdk.microgrid._power_managing._matryoshka import Matryoshka
from frequenz.sdk.timeseries._base_types import Bounds, SystemBounds

from ..core import Acc, Violation, digest
from ..explore import pmap_acc
from ..ref import matryoshka as ref

PID = "C03"
W = Power.from_watts
IDS = frozenset({1})
TS = datetime(2024, 1, 1, tzinfo=timezone.utc)
MAX_AGE = 60.0

SYSTEMS = [
    (-200, 200, -60, 60),  # symmetric
    (-200, 200, 0, 0),  # no exclusion zone
    (-200, 200, -60, 0),  # one-sided zone
    (0, 200, 0, 60),  # one-sided system
    (-200, 200, -100, 100),  # wide zone
    (-300, 100, -100, 50),  # asymmetric
    (-200, 200, -200, 200),  # exclusion = inclusion
    (-200, 100, -60, 100),  # exclusion touches one inclusion bound
    (-200, 20, -60, 60),  # upper inclusion bound strictly inside the exclusion zone
    (-20, 200, -60, 60),  # lower inclusion bound strictly inside the exclusion zone
    (-20, 20, -60, 60),  # both inside: only 0 is usable
]


def sb(lo, hi, el, eu):
    return SystemBounds(timestamp=TS, inclusion_bounds=Bounds(W(lo), W(hi)), exclusion_bounds=Bounds(W(el), W(eu)))


def prop(src, prio, p, lo, hi, t=0.0, op=False):
    return Proposal(
        source_id=src, preferred_power=None if p is None else W(p),
        bounds=timeseries.Bounds(None if lo is None else W(lo), None if hi is None else W(hi)),
        component_ids=IDS, priority=prio, creation_time=t, set_operating_point=op,
    )


def target_of(props, sysb, order=None):
    m = Matryoshka(max_proposal_age=timedelta(seconds=MAX_AGE))
    S = sb(*sysb)
    for pr in (order if order is not None else props):
        m.calculate_target_power(IDS, prop(pr[1], pr[0], pr[2], pr[3], pr[4]), S)
    t = m.calculate_target_power(IDS, None, S, must_return_power=True)
    return None if t is None else t.as_watts()


def safety(sysb, w):
    lo, hi, el, eu = sysb
    v = []
    if w is None:
        return v
    if not (lo <= w <= hi):
        v.append(("target_within_system_inclusion_bounds", {"target": w, "system": list(sysb)}))
    if w != 0 and el < w < eu:
        v.append(("target_zero_or_outside_exclusion_zone", {"target": w, "system": list(sysb)}))
    return v


PREFS_Q = [None, -300, -100, -50, 0, 50, 100, 300]
BNDS_Q = [None, -300, -100, -60, 0, 60, 100, 300]


def e3_shard(args) -> Acc:
    tier, si, n, p1 = args
    acc = Acc()
    sysb = SYSTEMS[si]
    prefs = PREFS_Q if tier == "quick" else PREFS_Q + [-60, 60, 150]
    bnds = BNDS_Q
    # actor 1 (priority 3) has full menus; actors 2,3 reduced (priority 2 and a tie at 2 / priority 1)
    a1 = [(p1, lo, hi) for lo in bnds for hi in bnds]  # includes inverted pairs
    if tier == "quick":
        a2 = [(p, lo, hi) for p in prefs for lo in (None, -100, 60) for hi in (None, 0, -60)]
        a3 = [(p, None, hi) for p in (None, -50, 300) for hi in (None, 50)]
    else:
        a2 = [(p, lo, hi) for p in prefs for lo in (None, -100, 0, 60) for hi in (None, 0, 100, -60)]
        a3 = [(p, lo, hi) for p in (None, -50, 0, 300) for lo in (None, -300) for hi in (None, 50)]
    combos = [a1] + ([a2] if n >= 2 else []) + ([a3] if n >= 3 else [])
    prios = [(3, "a"), (2, "b"), (2, "c") if tier != "quick" else (1, "c")]
    if n >= 4:
        combos.append([(p, None, None) for p in (None, 10, -300)])
        prios.append((1, "d"))
    for vals in itertools.product(*combos):
        props = [(prios[i][0], prios[i][1], *vals[i]) for i in range(len(vals))]
        w = target_of(props, sysb)
        acc.evaluations += 1
        acc.transitions += len(props)
        acc.traces += 1
        acc.clauses["target_within_system_inclusion_bounds"] += 1
        acc.clauses["target_zero_or_outside_exclusion_zone"] += 1
        conflict = ref.ref_target(sysb, props) is None
        if n >= 2 and conflict:
            acc.nontrivial += 1
        acc.outcome(f"sys{si} {'conflict' if conflict else 'compatible'} target={'0' if w == 0 else ('edge' if w in sysb else 'other')}")
        if acc.evaluations % 20000 == 1:
            acc.sample({"system": list(sysb), "proposals": props, "target": w})
        for clause, detail in safety(sysb, w):
            acc.violation(Violation(clause, {"driver": "e3", "system": list(sysb), "proposals": props}, detail))
    acc.states = acc.evaluations
    return acc


# -- E2: histories -------------------------------------------------------------

ACTORS = [(3, "a"), (2, "b"), (2, "c"), (1, "d")]
VARIANTS = [(100, None, None), (-300, -100, 100), (None, 60, None), (0, None, 0), (50, -60, 60), (None, None, None)]
TICKS = [30.0, 31.0]


def run_history(history, sysb):
    """Replay a history on a fresh real Matryoshka; returns (target, now)."""
    m = Matryoshka(max_proposal_age=timedelta(seconds=MAX_AGE))
    S = sb(*sysb)
    now = 0.0
    for ev in history:
        if ev[0] == "p":
            _, prio, src, pref, lo, hi = ev
            m.calculate_target_power(IDS, prop(src, prio, pref, lo, hi, t=now), S)
        else:
            now += ev[1]
            m.drop_old_proposals(now)
    t = m.calculate_target_power(IDS, None, S, must_return_power=True)
    stored = m.get_target_power(IDS)
    return (None if t is None else t.as_watts()), (None if stored is None else stored.as_watts())


def e2_bfs(args) -> Acc:
    tier, si, depth, nact, first = args
    acc = Acc()
    sysb = SYSTEMS[si]
    actors = ACTORS[:nact]
    events = [("p", pr, src, *v) for (pr, src) in actors for v in VARIANTS] + [("t", d) for d in TICKS]
    seen = set()
    # the search is sharded by its first event (states are merged within a shard only)
    start = () if first is None else (events[first],)
    frontier = collections.deque([start])
    seen.add(digest([]))
    while frontier:
        hist = frontier.popleft()
        if len(hist) >= depth:
            continue
        for ev in events:
            h2 = hist + (ev,)
            live, aged = ref.live_set(h2, MAX_AGE)
            if not live and ev[0] == "t":
                # ticking an empty manager: nothing to observe
                pass
            target, stored = run_history(h2, sysb)
            acc.transitions += 1
            acc.evaluations += 1
            # oracle 1: safety
            viol = safety(sysb, target)
            # oracle 2: history-freeness vs a fresh instance, every insertion order
            if live:
                exp = {target_of(list(o), sysb, order=list(o)) for o in itertools.permutations(live)}
                acc.clauses["target_depends_only_on_live_set"] += 1
                acc.clauses["target_independent_of_insertion_order"] += 1
                if len(exp) != 1:
                    viol.append(("target_independent_of_insertion_order", {"live": live, "targets": sorted(exp, key=repr)}))
                elif target not in exp:
                    viol.append(("target_depends_only_on_live_set", {"live": live, "after_history": target, "fresh": sorted(exp, key=repr)}))
                if stored != target:
                    viol.append(("stored_target_is_current_target", {"stored": stored, "target": target}))
            else:
                acc.clauses["expired_proposals_stop_counting"] += 1
                if target not in (None, 0.0) or stored not in (None, 0.0):
                    viol.append(("expired_proposals_stop_counting", {"target": target, "stored_target": stored, "history": list(h2)}))
            for clause, detail in viol:
                acc.violation(Violation(clause, {"driver": "e2", "system": list(sysb), "history": [list(e) for e in h2]}, detail))
            key = digest(sorted(([list(p), round(age, 3)] for p, age in aged), key=repr))
            if key not in seen:
                seen.add(key)
                frontier.append(h2)
                acc.traces += 1
                if len(live) >= 2 and any(e[0] == "t" for e in h2):
                    acc.nontrivial += 1
                if len(seen) % 500 == 1:
                    acc.sample({"system": list(sysb), "history": [list(e) for e in h2], "live": live, "target": target})
    acc.states = len(seen)
    acc.outcome(f"e2 sys{si} states={len(seen)}")
    return acc


# -- E2b: expiry-focused pass, no state merging ------------------------------------

EXP_EVENTS = [("p", 3, "a", None, 50, 100), ("p", 2, "b", 20, None, None), ("p", 1, "c", -100, None, None),
              ("t", 1.0), ("t", 30.0)]
EXP_EVENTS_T = EXP_EVENTS + [("p", 3, "a", None, None, -50), ("t", 29.0)]


def e2_expiry(args) -> Acc:
    """Every event sequence up to the depth, starting with the given prefix; the real
    object is carried along (deep-copied at branch points) and never merged with another
    history, so state the reference does not know about (a cache, a watermark) cannot be
    hidden by deduplication."""
    import copy

    tier, si, depth, prefix = args
    acc = Acc()
    sysb = SYSTEMS[si]
    S = sb(*sysb)
    events = EXP_EVENTS if tier == "quick" else EXP_EVENTS_T

    def apply(m, now, ev):
        if ev[0] == "p":
            _, prio, src, pref, lo, hi = ev
            m.calculate_target_power(IDS, prop(src, prio, pref, lo, hi, t=now), S)
            return now
        now += ev[1]
        m.drop_old_proposals(now)
        return now

    def check(m, hist):
        live, _ = ref.live_set(hist, MAX_AGE)
        probe = copy.deepcopy(m)
        t = probe.calculate_target_power(IDS, None, S, must_return_power=True)
        target = None if t is None else t.as_watts()
        acc.evaluations += 1
        acc.clauses["target_depends_only_on_live_set"] += 1
        viol = safety(sysb, target)
        if live:
            exp = target_of(live, sysb)
            if target != exp:
                viol.append(("target_depends_only_on_live_set", {"live": live, "after_history": target, "fresh": exp}))
        else:
            st = probe.get_target_power(IDS)
            st = None if st is None else st.as_watts()
            if target not in (None, 0.0) or st not in (None, 0.0):
                viol.append(("expired_proposals_stop_counting", {"target": target, "stored_target": st}))
        for clause, detail in viol:
            acc.violation(Violation(clause, {"driver": "e2", "system": list(sysb), "history": [list(e) for e in hist]}, detail))
        if len(live) >= 2 and sum(1 for e in hist if e[0] == "t") >= 2:
            acc.nontrivial += 1

    def rec(m, now, hist):
        if len(hist) >= depth:
            acc.traces += 1
            return
        for ev in events:
            m2 = copy.deepcopy(m)
            now2 = apply(m2, now, ev)
            h2 = hist + (ev,)
            acc.transitions += 1
            check(m2, h2)
            if now2 > 3 * MAX_AGE:
                acc.traces += 1
                continue  # everything has expired long ago; nothing new beyond this horizon
            rec(m2, now2, h2)

    m = Matryoshka(max_proposal_age=timedelta(seconds=MAX_AGE))
    now = 0.0
    for ev in prefix:
        now = apply(m, now, ev)
    rec(m, now, tuple(prefix))
    acc.states = acc.transitions  # histories are the states here (no merging)
    acc.outcome(f"e2-expiry sys{si}")
    return acc


# -- E2c: two component groups, changing system bounds, stored target ---------------------

G_SYS = [(-200, 200, 0, 0), (-100, 100, 0, 0), (-200, 200, -60, 60)]
G_EVENTS = (
    [("p", 1, 3, "a", None, 50, 100), ("p", 2, 3, "a", None, -150, 150)]  # (group 2: bounds wider than the narrow system bounds)
    + [("p", g, 2, "b", 150, None, None) for g in (1, 2)]
    + [("p", 1, 1, "c", 20, None, None)]
    + [("p", 1, 2, "b", -50, -20, -120)]  # actor b replaces its proposal by one whose own bounds are inverted
    + [("p", 1, 2, "b", 40, None, None, -5.0)]  # ... by one that was created 5 s before it arrives (creation_time is an input)
    + [("t", 30.25), ("t", 30.6), ("s", 0), ("s", 1), ("s", 2)]
)
MAX_AGE_G = 60.75  # a maximum age with a fractional part: two 30.25 s steps stay below it, 30.25 s + 30.6 s = 60.85 s do not
G_EVENTS_T = G_EVENTS + [("p", 2, 1, "c", -100, None, None), ("t", 1.0)]


def _bw(b):
    return None if b is None else (None if b.lower is None else b.lower.as_watts(), None if b.upper is None else b.upper.as_watts())


def _status_bounds(m, g, sysb):
    r = m.get_status(frozenset({g}), 1, sb(*sysb))
    return [_bw(r._inclusion_bounds), _bw(r._exclusion_bounds)]


def _fresh_status_bounds(live, g, sysb):
    m = Matryoshka(max_proposal_age=timedelta(seconds=MAX_AGE))
    for pr in live:
        m.calculate_target_power(frozenset({g}), Proposal(
            source_id=pr[1], preferred_power=None if pr[2] is None else W(pr[2]),
            bounds=timeseries.Bounds(None if pr[3] is None else W(pr[3]), None if pr[4] is None else W(pr[4])),
            component_ids=frozenset({g}), priority=pr[0], creation_time=0.0, set_operating_point=False), sb(*sysb))
    return _status_bounds(m, g, sysb)


def e2_groups(args) -> Acc:
    """Two component groups served by one Matryoshka (the same actors propose for both), the system bounds passed
    with the calls change over time, and proposals are re-sent unchanged.  No state merging.  After every call
    that carries a proposal, the stored target (get_target_power) of that group must be the target a fresh
    instance computes from the group's live proposals under the bounds of that call; after every event the
    recomputed target (must_return_power=True) of both groups must."""
    import copy

    tier, depth, prefix = args
    acc = Acc()
    events = G_EVENTS if tier == "quick" else G_EVENTS_T

    def gprop(g, src, prio, pref, lo, hi, t):
        return Proposal(
            source_id=src, preferred_power=None if pref is None else W(pref),
            bounds=timeseries.Bounds(None if lo is None else W(lo), None if hi is None else W(hi)),
            component_ids=frozenset({g}), priority=prio, creation_time=t, set_operating_point=False,
        )

    def apply(st, ev):
        m, now, si = st
        if ev[0] == "p":
            _, g, prio, src, pref, lo, hi = ev[:7]
            m.calculate_target_power(frozenset({g}), gprop(g, src, prio, pref, lo, hi, now + (ev[7] if len(ev) > 7 else 0.0)),
                                     sb(*G_SYS[si]))
        elif ev[0] == "t":
            now += ev[1]
            m.drop_old_proposals(now)
        else:
            si = ev[1]
            for g in (1, 2):  # what the power manager does on a bounds update
                m.calculate_target_power(frozenset({g}), None, sb(*G_SYS[si]))
        return (m, now, si)

    def group_hist(hist, g):
        return tuple(("p", *e[2:]) if e[0] == "p" else e for e in hist
                     if (e[0] == "p" and e[1] == g) or e[0] == "t")

    def check(st, hist):
        m, now, si = st
        sysb = G_SYS[si]
        ev = hist[-1]
        viol = []
        for g in (1, 2):
            live, _ = ref.live_set(group_hist(hist, g), MAX_AGE_G)
            exp = target_of(live, sysb) if live else None
            if ((ev[0] == "p" and ev[1] == g) or ev[0] == "s") and live:
                acc.clauses["stored_target_is_current_target"] += 1
                stv = m.get_target_power(frozenset({g}))
                stv = None if stv is None else stv.as_watts()
                if stv != exp:
                    viol.append(("stored_target_is_current_target", {"group": g, "stored": stv, "fresh": exp, "live": live, "system": list(sysb)}))
            # the bounds reported to a priority-1 actor depend only on the live proposals too
            acc.clauses["reported_bounds_depend_only_on_live_set"] += 1
            got_b = _status_bounds(m, g, sysb)
            exp_b = _fresh_status_bounds(live, g, sysb)
            if got_b != exp_b:
                viol.append(("reported_bounds_depend_only_on_live_set", {"group": g, "reported": got_b, "fresh": exp_b, "live": live,
                                                                         "system": list(sysb)}))
            probe = copy.deepcopy(m)
            t = probe.calculate_target_power(frozenset({g}), None, sb(*sysb), must_return_power=True)
            target = None if t is None else t.as_watts()
            acc.evaluations += 1
            acc.clauses["target_depends_only_on_live_set"] += 1
            viol += safety(sysb, target)
            if live:
                if target != exp:
                    viol.append(("target_depends_only_on_live_set", {"group": g, "live": live, "after_history": target, "fresh": exp,
                                                                     "system": list(sysb)}))
            elif target not in (None, 0.0):
                viol.append(("expired_proposals_stop_counting", {"group": g, "target": target}))
        for clause, detail in viol:
            acc.violation(Violation(clause, {"driver": "e2-groups", "history": [list(e) for e in hist]}, detail))
        if len({e[1] for e in hist if e[0] == "p"}) == 2 and any(e[0] == "t" for e in hist):
            acc.nontrivial += 1

    def rec(st, hist):
        if len(hist) >= depth:
            acc.traces += 1
            return
        for ev in events:
            st2 = apply((copy.deepcopy(st[0]), st[1], st[2]), ev)
            h2 = hist + (ev,)
            acc.transitions += 1
            check(st2, h2)
            if st2[1] > 2 * MAX_AGE_G:
                acc.traces += 1
                continue
            rec(st2, h2)

    st = (Matryoshka(max_proposal_age=timedelta(seconds=MAX_AGE_G)), 0.0, 0)
    for ev in prefix:
        st = apply(st, ev)
    rec(st, tuple(prefix))
    acc.states = acc.transitions
    acc.outcome("e2-groups")
    return acc


def replay_groups(hist):
    import copy

    acc_v = []
    m = Matryoshka(max_proposal_age=timedelta(seconds=MAX_AGE_G))
    now, si = 0.0, 0
    for k, ev in enumerate(hist):
        if ev[0] == "p":
            _, g, prio, src, pref, lo, hi = ev[:7]
            pr = Proposal(source_id=src, preferred_power=None if pref is None else W(pref),
                          bounds=timeseries.Bounds(None if lo is None else W(lo), None if hi is None else W(hi)),
                          component_ids=frozenset({g}), priority=prio, creation_time=now + (ev[7] if len(ev) > 7 else 0.0),
                          set_operating_point=False)
            m.calculate_target_power(frozenset({g}), pr, sb(*G_SYS[si]))
        elif ev[0] == "t":
            now += ev[1]
            m.drop_old_proposals(now)
        else:
            si = ev[1]
            for g in (1, 2):
                m.calculate_target_power(frozenset({g}), None, sb(*G_SYS[si]))
    sysb = G_SYS[si]
    ev = hist[-1]
    for g in (1, 2):
        gh = tuple(("p", *e[2:]) if e[0] == "p" else e for e in hist if (e[0] == "p" and e[1] == g) or e[0] == "t")
        live, _ = ref.live_set(gh, MAX_AGE_G)
        exp = target_of(live, sysb) if live else None
        if _status_bounds(m, g, sysb) != _fresh_status_bounds(live, g, sysb):
            acc_v.append(("reported_bounds_depend_only_on_live_set", {"group": g, "reported": _status_bounds(m, g, sysb),
                                                                      "fresh": _fresh_status_bounds(live, g, sysb)}))
        if ((ev[0] == "p" and ev[1] == g) or ev[0] == "s") and live:
            stv = m.get_target_power(frozenset({g}))
            stv = None if stv is None else stv.as_watts()
            if stv != exp:
                acc_v.append(("stored_target_is_current_target", {"group": g, "stored": stv, "fresh": exp}))
        probe = copy.deepcopy(m)
        t = probe.calculate_target_power(frozenset({g}), None, sb(*sysb), must_return_power=True)
        target = None if t is None else t.as_watts()
        acc_v += safety(sysb, target)
        if live and target != exp:
            acc_v.append(("target_depends_only_on_live_set", {"group": g, "after_history": target, "fresh": exp}))
        if not live and target not in (None, 0.0):
            acc_v.append(("expired_proposals_stop_counting", {"group": g, "target": target}))
    return acc_v


def _dispatch(args):
    if args[0] == "e2g":
        return e2_groups(args[1:])
    if args[0] == "e3":
        return e3_shard(args[1:])
    if args[0] == "e2x":
        return e2_expiry(args[1:])
    return e2_bfs(args[1:])


def run(tier: str, seed: int, workers: int):
    prefs = PREFS_Q if tier == "quick" else PREFS_Q + [-60, 60, 150]
    nmax = 3 if tier == "quick" else 4
    shards = []
    for si in range(len(SYSTEMS)):
        for n in range(1, nmax + 1):
            for p1 in prefs:
                shards.append(("e3", tier, si, n, p1))
        if tier == "quick":
            shards.append(("e2", tier, si, 4, 3, None))
        else:
            for first in range(3 * len(VARIANTS) + len(TICKS)):
                shards.append(("e2", tier, si, 5, 3, first))
    evs = EXP_EVENTS if tier == "quick" else EXP_EVENTS_T
    for si in ((0,) if tier == "quick" else (0, 1)):
        for e1 in evs:
            for e2 in evs:
                shards.append(("e2x", tier, si, 7 if tier == "quick" else 8, (e1, e2)))
    gev = G_EVENTS if tier == "quick" else G_EVENTS_T
    for e1 in gev:
        for e2 in gev:
            shards.append(("e2g", tier, 5, (e1, e2)))  # thorough: same depth, larger alphabet
    if seed:
        import random

        random.Random(seed).shuffle(shards)
    acc = pmap_acc(_dispatch, shards, workers)
    meta = {
        "rule": "E2c (groups): every sequence to depth 5 over {actor a / b proposes for component group 1 or 2, actor c for "
        "group 1, actor b replaces its proposal by one with inverted bounds or by one created 5 s before it arrives, +30.25 s, +30.6 s (maximum proposal age 60.75 s), a system-bounds "
        "update to one of 3 shapes (two differ only in the exclusion zone) after which every group is re-evaluated without a proposal} on ONE "
        "Matryoshka, without state merging: after every proposal and bounds update the stored target, and after every event the recomputed "
        "target and the bounds reported to a priority-1 actor (get_status), of both groups equal what a fresh instance computes from that "
        "group's live proposals under the bounds in force.  "
        "E3: 8 system-bounds shapes x all combinations of up to 3 (quick) / 4 (thorough) proposals (priorities with a tie, "
        "preferred power and lower/upper bounds from menus on, inside and outside every interval edge, incl. None, inverted and "
        "mutually incompatible bounds); non-trivial = >= 2 proposals whose bounds conflict.  E2: BFS over histories of "
        "propose/replace (actor x 6 variants) and clock advance + drop_old_proposals (30 s, 31 s; max age 60 s) to the stated "
        "depth, states deduplicated on the live proposal set with ages; in every state the target is compared with a fresh "
        "instance fed the live set in every insertion order.  E2b (expiry): every sequence of {three fixed proposals, +1 s, +30 s} "
        "to depth 7 (quick) / 8 with two more events (thorough) WITHOUT state merging, target compared with a fresh instance after every step",
        "assumptions": [
            "decided on the stated value menus",
            "expiry is observed through drop_old_proposals(now), as the power manager calls it",
            "E2 state key = live proposals with their ages (the Matryoshka keeps nothing else but the last target)",
        ],
        "exhaustive": True,
        "bounds": {"e3_max_proposals": nmax, "e2_depth": 4 if tier == "quick" else 5, "systems": len(SYSTEMS)},
    }
    return acc, meta


def replay(case: dict):
    if case["driver"] == "e2-groups":
        return replay_groups(tuple(tuple(e) for e in case["history"]))
    sysb = tuple(case["system"])
    if case["driver"] == "e3":
        props = [tuple(p) for p in case["proposals"]]
        return safety(sysb, target_of(props, sysb))
    hist = tuple(tuple(e) for e in case["history"])
    target, stored = run_history(hist, sysb)
    live, _ = ref.live_set(hist, MAX_AGE)
    viol = safety(sysb, target)
    if live:
        exp = {target_of(list(o), sysb, order=list(o)) for o in itertools.permutations(live)}
        if len(exp) != 1:
            viol.append(("target_independent_of_insertion_order", {"live": live, "targets": sorted(exp, key=repr)}))
        elif target not in exp:
            viol.append(("target_depends_only_on_live_set", {"live": live, "after_history": target, "fresh": sorted(exp, key=repr)}))
        if stored != target:
            viol.append(("stored_target_is_current_target", {"stored": stored, "target": target}))
    elif target not in (None, 0.0) or stored not in (None, 0.0):
        viol.append(("expired_proposals_stop_counting", {"target": target, "stored_target": stored}))
    return viol
