"""C06 — every formula sample is computed from inputs of a single timestamp (E1).

Stream i delivers the value ``t`` at timestamp ``t``; the formula is
``sum_i 100**i * stream_i`` so every output decodes which timestamp each input
contributed.  All interleavings of per-stream deliveries (order kept) and of the moment
the consumer starts the engine are explored; mid-flight delivery is a deviation.
"""
from __future__ import annotations

import itertools

from frequenz.channels import Broadcast
from frequenz.quantities import Quantity

from frequenz.sdk.timeseries import Sample
from frequenz.sdk.timeseries.formula_engine import FormulaEngine, FormulaEngine3Phase
from frequenz.sdk.timeseries.formula_engine._formula_engine import FormulaBuilder

from ..core import Acc
from ..explore import Chooser, Observation, determinism_selfcheck, explore, replay_choices
from ..vloop import install_ordered_wait, uninstall_ordered_wait, virtual_loop
from . import formula as F

PID = "C06"
BASE = 100


def build_engine(kind, rxs):
    n = len(rxs)
    if kind == "builder":
        b = FormulaBuilder("weighted-sum", Quantity)
        for i, rx in enumerate(rxs):
            if i:
                b.push_oper("+")
            b.push_metric(f"s{i}", rx, nones_are_zeros=False)
            if i:
                b.push_oper("*")
                b.push_constant(float(BASE**i))
        return b.build()
    if kind == "api":
        engines = [FormulaEngine.from_receiver(f"s{i}", rx, Quantity) for i, rx in enumerate(rxs)]
        expr = engines[0] + engines[1] * float(BASE)
        for i in range(2, n):
            expr = expr + engines[i] * float(BASE**i)
        return expr.build("weighted-sum")
    if kind == "3phase":
        engines = tuple(FormulaEngine.from_receiver(f"phase{i + 1}", rx, Quantity) for i, rx in enumerate(rxs))
        return FormulaEngine3Phase("three-phase", Quantity, engines)
    raise ValueError(kind)


def lengths(firsts, length):
    """Samples per stream: the same for all, or ("end", extra): every stream ends at max(firsts) + extra."""
    if isinstance(length, (tuple, list)):
        last = max(firsts) + length[1]
        return [last - f + 1 for f in firsts]
    return [length] * len(firsts)


def make_scenario(kind, firsts, length):
    with_wait = kind.endswith("+wait")
    kind = kind.replace("+wait", "")
    n = len(firsts)
    lens = lengths(firsts, length)
    fractional = any(f != int(f) for f in firsts)

    def scenario(ch: Chooser) -> Observation:
        obs = Observation()

        def permute(k):
            # asyncio.wait() returns `done` as a set whose iteration order depends on object addresses;
            # the harness owns that order: creation order by default, any other order is a deviation
            perms = list(itertools.permutations(range(k)))
            return list(perms[ch.choose(len(perms), ("done-set-order", k), dev=True)])

        install_ordered_wait(permute)
        try:
            return _run(ch, obs)
        finally:
            uninstall_ordered_wait()

    def _run(ch, obs):
        with virtual_loop() as loop:
            chans = [Broadcast(name=f"in{i}") for i in range(n)]
            senders = [c.new_sender() for c in chans]
            rxs = [c.new_receiver() for c in chans]
            engine = build_engine(kind, rxs)
            sent = [0] * n
            started = [False]
            out_rx = [None]
            outputs = []
            log = []

            waited = [False]

            def enabled():
                ev = [("deliver", i) for i in range(n) if sent[i] < lens[i]]
                if not started[0]:
                    ev.append(("start",))
                if with_wait and not waited[0] and 0 < sum(sent) < sum(lens):
                    ev.append(("wait", 12.0))  # nothing is delivered for 12 s
                return ev

            def fire(e):
                log.append(e)
                if e[0] == "wait":
                    waited[0] = True
                    loop.advance(e[1])
                    return
                if e[0] == "deliver":
                    i = e[1]
                    t = firsts[i] + sent[i]
                    F.push(senders[i], Sample(F.ts(t), Quantity(float(t))))
                    sent[i] += 1
                else:
                    out_rx[0] = engine.new_receiver()
                    started[0] = True

            def drain():
                rx = out_rx[0]
                while rx is not None and len(rx):
                    s = rx.consume()
                    T = int((s.timestamp - F.T0).total_seconds())
                    if kind == "3phase":
                        vals = [s.value_p1, s.value_p2, s.value_p3]
                        outputs.append((T, tuple(None if v is None else int(round(v.base_value)) for v in vals)))
                    else:
                        v = None if s.value is None else int(round(s.value.base_value))
                        dec = None if v is None else tuple((v // BASE**i) % BASE for i in range(n))
                        outputs.append((T, dec))

            while True:
                while not loop.quiescent():
                    ev = enabled()
                    if ev:
                        c = ch.choose(1 + len(ev), ("mid", tuple(ev)), dev=True)
                        if c > 0:
                            fire(ev[c - 1])
                    loop.run_iteration()
                    drain()
                drain()
                ev = enabled()
                if not ev:
                    break
                c = ch.choose(len(ev), ("next", tuple(ev)))
                fire(ev[c])
            loop.settle()
            drain()

            viol = []
            C = obs.clauses
            if fractional:
                # the streams never share a timestamp: nothing may be emitted
                C["no_output_without_a_common_timestamp"] = 1
                if outputs:
                    viol.append(("no_output_without_a_common_timestamp", {"first_timestamps": list(firsts), "outputs": outputs[:4],
                                                                          "events": [list(e) for e in log]}))
                obs.violations = viol
                obs.events = len(log)
                obs.outcome = "fractional-no-output"
                obs.nontrivial = True
                obs.state_keys = [repr((tuple(sent), started[0], len(outputs)))]
                return obs
            lo = max(firsts)
            hi = min(f + l - 1 for f, l in zip(firsts, lens))
            for T, dec in outputs:
                C["value_computed_from_inputs_of_its_timestamp"] = C.get("value_computed_from_inputs_of_its_timestamp", 0) + 1
                if dec is None or any(d != T for d in dec):
                    viol.append(("value_computed_from_inputs_of_its_timestamp",
                                 {"timestamp": T, "inputs_used_timestamps": dec, "events": [list(e) for e in log]}))
                    break
            Ts = [T for T, _ in outputs]
            C["timestamps_consecutive"] = C.get("timestamps_consecutive", 0) + 1
            if any(b != a + 1 for a, b in zip(Ts, Ts[1:])):
                viol.append(("timestamps_consecutive", {"emitted": Ts, "events": [list(e) for e in log]}))
            C["starts_once_all_inputs_available"] = C.get("starts_once_all_inputs_available", 0) + 1
            exp = list(range(lo, hi + 1))
            if not viol and Ts != exp:
                viol.append(("starts_once_all_inputs_available_and_covers_all_common_timestamps",
                             {"emitted": Ts, "expected": exp, "first_timestamps": list(firsts), "events": [list(e) for e in log]}))
            if loop.unhandled:
                viol.append(("no_unhandled_exception", {"unhandled": loop.unhandled[:2]}))
            obs.violations = viol
            obs.events = len(log)
            obs.outcome = repr(tuple(Ts))
            obs.nontrivial = len(set(firsts)) > 1 or log.index(("start",)) > 0
            obs.state_keys = [repr((tuple(sent), started[0], len(outputs)))]
            obs.sample = {"kind": kind, "first_timestamps": list(firsts), "events": [list(e) for e in log], "outputs": outputs}
        return obs

    return scenario


def _mkcase(kind, firsts, length):
    return lambda choices: {"kind": kind, "firsts": list(firsts), "length": length, "choices": list(choices)}


def late_consumer_case(kind="builder", n_samples=55, max_size=60):
    """A consumer that asked for an output receiver of capacity ``max_size`` > the default and reads only after
    ``n_samples`` (<= max_size) results have accumulated: nothing may be skipped.  One fixed (directed) execution,
    lock-step inputs."""
    viol = []
    with virtual_loop() as loop:
        chans = [Broadcast(name=f"in{i}") for i in range(2)]
        senders = [c.new_sender() for c in chans]
        engine = build_engine(kind, [c.new_receiver() for c in chans])
        rx = engine.new_receiver(max_size=max_size)
        loop.settle()
        for t in range(n_samples):
            for sd in senders:
                F.push(sd, Sample(F.ts(t), Quantity(float(t))))
            loop.settle()
        got = []
        while len(rx):
            s = rx.consume()
            got.append(int((s.timestamp - F.T0).total_seconds()))
        if got != list(range(n_samples)):
            viol.append(("no_output_skipped_within_the_receiver_capacity_asked_for",
                         {"max_size": max_size, "results_produced": n_samples, "first_read": got[:3], "read": len(got)}))
    return viol


def directed_shard(_args) -> Acc:
    from ..core import Acc, Violation

    acc = Acc()
    for kind in ("builder", "api"):
        viol = late_consumer_case(kind)
        acc.evaluations += 1
        acc.traces += 1
        acc.transitions += 55
        acc.nontrivial += 1
        acc.clauses["no_output_skipped_within_the_receiver_capacity_asked_for"] += 1
        acc.state(repr(("late-consumer", kind)))
        acc.outcome("late-consumer")
        for clause, detail in viol:
            acc.violation(Violation(clause, {"driver": "late-consumer", "kind": kind}, detail))
    return acc


def shard(args) -> Acc:
    if args[0] == "directed":
        return directed_shard(args)
    kind, firsts, length, bound = args
    sc = make_scenario(kind, firsts, length)
    return explore(sc, bound, _mkcase(kind, firsts, length), workers=1)


def run(tier: str, seed: int, workers: int):
    from ..explore import pmap_acc

    shards = []
    if tier == "quick":
        plans = [("builder", 2, 3, 1), ("api", 2, 3, 0), ("3phase", 3, 2, 0), ("builder", 3, 2, 0),
                 # three streams starting on three different timestamps, all ending one step after the latest start
                 ("builder", 3, ("end", 1), 0), ("3phase", 3, ("end", 0), 0)]
    else:
        plans = [("builder", 2, 4, 2), ("api", 2, 4, 1), ("3phase", 3, 3, 1), ("builder", 3, 3, 1), ("api", 3, 2, 1),
                 ("api", 3, ("end", 1), 0), ("builder", 3, ("end", 1), 0)]
    for kind, n, length, bound in plans:
        for firsts in itertools.product((0, 1, 2), repeat=n):
            if min(firsts) != 0:
                continue  # shifting all streams together changes nothing
            if kind == "3phase" and len(firsts) != 3:
                continue
            if min(f + l - 1 for f, l in zip(firsts, lengths(firsts, length))) < max(firsts):
                continue  # no common timestamp
            if isinstance(length, tuple) and len(set(firsts)) < 3:
                continue  # the ("end", k) plans are about three distinct first timestamps
            shards.append((kind, firsts, length, bound))
    shards.append(("directed",))
    # streams whose timestamps are shifted against each other by half a step (no common timestamp at all)
    shards.append(("builder", (0, 0.5), 3, 0))
    shards.append(("api", (0.5, 0), 3, 0))
    # nothing is delivered for 12 s at some point (longer than any plausible internal fetch timeout)
    shards.append(("builder+wait", (0, 0), 3, 0))
    shards.append(("builder+wait", (0, 1), 3, 0))
    shards.append(("api+wait", (0, 0, 1), 2, 0))
    determinism_selfcheck(make_scenario("builder", (0, 1), 3))
    if seed:
        import random

        random.Random(seed).shuffle(shards)
    acc = pmap_acc(shard, shards, workers)
    meta = {
        "rule": "formula = sum_i 100^i * stream_i with stream_i(t) = t; n = 2-3 input streams, per-stream first timestamp in {0,1,2}, "
        "L = 2-4 samples per stream (or all streams ending one step after the latest start, for three distinct first timestamps); every interleaving of per-stream deliveries (order kept) and of the consumer starting the "
        "engine, injected at quiescence; delivery between two loop iterations as deviation (bound per plan); engines built with "
        "FormulaBuilder, with the composition API (leaf engines as separate tasks) and as FormulaEngine3Phase over three phase "
        "engines; plus two streams shifted by half a step against each other (no output allowed) and plans in which nothing is delivered for "
        "12 s at any one point; non-trivial = streams start on different timestamps or the consumer starts late; plus one directed execution per builder "
        "kind: an output receiver asked for with max_size=60 that is read only after 55 results have accumulated",
        "assumptions": [
            "receiver backlog never exceeds the default capacity (L <= 4)",
            "at the end of an execution every common timestamp must have been emitted (the loop is quiescent, nothing is in flight)",
        ],
        "exhaustive": True,
        "bounds": {"plans": [list(p) for p in plans]},
    }
    return acc, meta


def replay(case: dict):
    if case.get("driver") == "late-consumer":
        return late_consumer_case(case["kind"])
    sc = make_scenario(case["kind"], tuple(case["firsts"]), case["length"])
    return replay_choices(sc, case["choices"], case.get("labels")).violations
