"""Shared E3 enumeration for the battery distribution algorithm (C01, C02, C17).

A configuration is a list of battery groups; a group is ``k`` batteries behind ``m``
inverters.  The request menu of every configuration is *derived from its thresholds*
by the reference computations below (advertised exclusion/inclusion bounds, sum of
group minimum powers, the powers at which a group's proportional share equals its
minimum power), so every branch of ``_distribute_power`` is reached on and around its
boundary.
"""
from __future__ import annotations

import functools
import itertools
import math
from dataclasses import dataclass

from frequenz.sdk.microgrid._power_distributing._distribution_algorithm import (
    AggregatedBatteryData,
    BatteryDistributionAlgorithm,
    InvBatPair,
)

from .. import fakes

TOL = 1e-6


@dataclass(frozen=True)
class BatSpec:
    soc: float
    cap: float
    excl: float  # upper exclusion bound (>= 0)
    incl: float  # upper inclusion bound
    sl: float = 20.0
    su: float = 80.0
    lower_scale: float = 1.0  # lower bounds = -scale * upper ones


@dataclass(frozen=True)
class InvSpec:
    excl: float
    incl: float
    lower_scale: float = 1.0


@dataclass(frozen=True)
class GroupSpec:
    bats: tuple  # of BatSpec
    invs: tuple  # of InvSpec

    def describe(self):
        return {
            "batteries": [vars(b) for b in self.bats],
            "inverters": [vars(i) for i in self.invs],
        }


def group_from_json(d) -> GroupSpec:
    return GroupSpec(tuple(BatSpec(**b) for b in d["batteries"]), tuple(InvSpec(**i) for i in d["inverters"]))


def build_pairs(groups: list[GroupSpec]):
    """Real client dataclasses + SDK aggregation for a configuration."""
    pairs = []
    for gi, g in enumerate(groups):
        bats = [
            fakes.bat(
                100 * (gi + 1) + bi, soc=b.soc, cap=b.cap, il=-b.incl * b.lower_scale,
                el=-b.excl * b.lower_scale, eu=b.excl, iu=b.incl, sl=b.sl, su=b.su,
            )
            for bi, b in enumerate(g.bats)
        ]
        invs = [
            fakes.inv(
                100 * (gi + 1) + 10 + ii, il=-i.incl * i.lower_scale, el=-i.excl * i.lower_scale,
                eu=i.excl, iu=i.incl,
            )
            for ii, i in enumerate(g.invs)
        ]
        pairs.append(InvBatPair(AggregatedBatteryData(bats), invs))
    return pairs


# -- reference computations (documented aggregation rules) ---------------------


@functools.lru_cache(maxsize=200000)
def ref_group(g: GroupSpec, sign: int) -> dict:
    """Bounds of a group in the requested direction, as magnitudes."""
    sc_b = [1.0 if sign > 0 else b.lower_scale for b in g.bats]
    sc_i = [1.0 if sign > 0 else i.lower_scale for i in g.invs]
    bat_excl = max(b.excl * s for b, s in zip(g.bats, sc_b)) * len(g.bats)
    bat_incl = sum(b.incl * s for b, s in zip(g.bats, sc_b))
    inv_excl = [i.excl * s for i, s in zip(g.invs, sc_i)]
    inv_incl = [min(i.incl * s, bat_incl) for i, s in zip(g.invs, sc_i)]
    cap = sum(b.cap for b in g.bats)
    soc = sum(b.soc * b.cap for b in g.bats) / cap
    su = sum(b.su * b.cap for b in g.bats) / cap
    sl = sum(b.sl * b.cap for b in g.bats) / cap
    headroom = max(0.0, su - soc) if sign > 0 else max(0.0, soc - sl)
    return {
        "bat_excl": bat_excl,
        "bat_incl": bat_incl,
        "inv_excl": inv_excl,
        "inv_incl": inv_incl,
        "min_power": max(bat_excl, min(inv_excl)),
        "incl": min(sum(inv_incl), bat_incl),
        "adv_excl": max(bat_excl, sum(inv_excl)),
        "adv_incl": min(bat_incl, sum(i.incl * s for i, s in zip(g.invs, sc_i))),
        "cap": cap,
        "headroom": headroom,
    }


def consistent(groups: list[GroupSpec]) -> bool:
    """The property's domain: incl_lower <= excl_lower <= 0 <= excl_upper <= incl_upper per
    component, and group minimum power <= group inclusion bound, in both directions."""
    for g in groups:
        for b in g.bats:
            if not (0 <= b.excl <= b.incl and b.cap >= 0):
                return False
        if sum(b.cap for b in g.bats) <= 0:
            return False
        for i in g.invs:
            if not 0 <= i.excl <= i.incl:
                return False
        for sign in (1, -1):
            r = ref_group(g, sign)
            if r["min_power"] > r["incl"] + TOL:
                return False
            # every inverter must be able to carry its own minimum
            if any(e > c + TOL for e, c in zip(r["inv_excl"], r["inv_incl"])):
                return False
    return True


def request_menu(groups: list[GroupSpec], exponent: float, sign: int, boundary: bool) -> list[float]:
    """Magnitudes to request, derived from the configuration's thresholds."""
    rs = [ref_group(g, sign) for g in groups]
    E = sum(r["adv_excl"] for r in rs)
    I = sum(r["adv_incl"] for r in rs)
    S = sum(r["min_power"] for r in rs)
    cap_total = sum(r["cap"] for r in rs)
    ratios = [r["cap"] / cap_total * (r["headroom"] ** exponent if r["headroom"] > 0 or exponent == 0 else 0.0) for r in rs]
    sr = sum(ratios)
    cand = {E + 1, E + 37, S, S + 1, (E + I) / 2, I - 1, I + 50, 2 * I + 10}
    if boundary:
        cand |= {E, I}
    else:
        cand |= {E, I}
    for r, ratio in zip(rs, ratios):
        if ratio > 0 and r["min_power"] > 0:
            p = r["min_power"] * sr / ratio  # share of this group == its minimum power
            cand |= {p - 1, p, p + 1}
        if ratio > 0:
            p = r["incl"] * sr / ratio  # share of this group == its inclusion bound
            cand |= {p - 1, p + 1}
    out = sorted(p for p in cand if p >= E - 1e-9 and p > 1e-3)
    return out


# -- enumerators -------------------------------------------------------------


def menus(tier: str):
    if tier == "quick":
        return {
            "shape": [(1, 1), (2, 1), (1, 2), (1, 3)],
            "soc": [20.0, 40.0, 80.0, 90.0],
            "cap": [1000.0, 3000.0],
            "bexcl": [0.0, 100.0, 300.0],
            "bincl": [500.0, 1000.0],
            "iexcl": [0.0, 200.0],
            "iincl": [400.0, 1000.0],
            "lower_scale": [1.0],
            "exponents": [1.0, 0.0, 2.0],
            "ngroups": [1, 2, 3],
        }
    return {
        "shape": [(1, 1), (2, 1), (1, 2), (2, 2), (1, 3)],
        "soc": [20.0, 40.0, 60.0, 80.0, 90.0],
        "cap": [1000.0, 3000.0],
        "bexcl": [0.0, 100.0, 300.0],
        "bincl": [500.0, 1000.0],
        "iexcl": [0.0, 100.0, 200.0],
        "iincl": [400.0, 1000.0],
        "lower_scale": [1.0, 0.5],
        "exponents": [1.0, 0.0, 0.5, 2.0],
        "ngroups": [1, 2, 3],
    }


def group_specs(m: dict, reduced: bool = False) -> list[GroupSpec]:
    """All group descriptors of a menu.  In a multi-battery group the second battery has a
    different SoC, capacity and exclusion bound; in a multi-inverter group the second
    inverter has a different exclusion and inclusion bound (so the 'largest exclusion
    bound first' split order matters)."""
    out = []
    socs = m["soc"] if not reduced else m["soc"][:3]
    for (k, n), soc, cap, be, bi, ie, ii, ls in itertools.product(
        m["shape"], socs, m["cap"] if not reduced else m["cap"][:1], m["bexcl"], m["bincl"],
        m["iexcl"], m["iincl"], m["lower_scale"],
    ):
        bats = [BatSpec(soc, cap, be, bi, lower_scale=ls)]
        if k == 2:
            # the second battery differs in SoC, capacity, exclusion AND inclusion bound (so "sum of the inclusion
            # bounds" and "n times the largest bound" give different aggregates)
            bats.append(BatSpec(min(95.0, soc + 15.0), 4000.0 - cap, 100.0 if be != 100.0 else 0.0, 0.6 * bi, lower_scale=ls))
        invs = [InvSpec(ie, ii, lower_scale=1.0)]
        if n == 2:
            invs.append(InvSpec(100.0 if ie != 100.0 else 50.0, 600.0))
        if n == 3:
            # "2s": a small first inverter without exclusion bound whose inclusion bound is below the battery's
            # exclusion bound, next to the menu inverter (the split order "largest exclusion bound first" matters)
            invs = [InvSpec(0.0, 250.0), InvSpec(ie, ii)]
        g = GroupSpec(tuple(bats), tuple(invs))
        if consistent([g]):
            out.append(g)
    if not reduced:
        # two batteries of different capacity whose SoCs straddle a limit: the capacity-weighted SoC is at / beyond the
        # limit while the plain mean is not (charging: 70 % x 1000 Wh + 85 % x 3000 Wh; discharging: 15 % x 3000 Wh + 30 % x 1000 Wh)
        for soc, cap in ((70.0, 1000.0), (15.0, 3000.0)):
            for be, ie in ((0.0, 0.0), (100.0, 0.0)):
                g = GroupSpec((BatSpec(soc, cap, be, 1000.0), BatSpec(soc + 15.0, 4000.0 - cap, 0.0, 600.0)), (InvSpec(ie, 1000.0),))
                if consistent([g]):
                    out.append(g)
        # two batteries behind one inverter whose exclusion zones are asymmetric in opposite ways ((-50, 200) and (-200, 50)):
        # the group's zone takes the larger bound on each side, from different batteries
        for soc in (40.0, 60.0):
            g = GroupSpec((BatSpec(soc, 1000.0, 200.0, 1000.0, lower_scale=0.25), BatSpec(soc + 15.0, 3000.0, 50.0, 600.0, lower_scale=4.0)),
                          (InvSpec(0.0, 1000.0),))
            if consistent([g]):
                out.append(g)
        # a member battery that reports capacity 0 (weight 0 in the group's SoC) but valid power bounds, which still count
        for soc in (40.0, 60.0):
            for ie in (0.0, 100.0):
                g = GroupSpec((BatSpec(soc, 1000.0, 100.0, 1000.0), BatSpec(soc + 15.0, 0.0, 100.0, 600.0)), (InvSpec(ie, 2000.0),))
                if consistent([g]):
                    out.append(g)
        # one battery behind two inverters with non-zero exclusion bounds: (a) the battery's inclusion bound leaves a
        # left-over for the second inverter that is smaller than its exclusion bound; (b) a first inverter with a narrow
        # allowed band (inclusion < own exclusion + the next one's)
        for soc in (40.0, 60.0):
            for g in (GroupSpec((BatSpec(soc, 1000.0, 200.0, 1050.0),), (InvSpec(100.0, 1000.0), InvSpec(100.0, 1000.0))),
                      GroupSpec((BatSpec(soc, 1000.0, 0.0, 1000.0),), (InvSpec(100.0, 150.0), InvSpec(100.0, 1000.0)))):
                if consistent([g]):
                    out.append(g)
    return out


def evaluate(groups: list[GroupSpec], exponent: float, power: float, pairs=None):
    if pairs is None:
        pairs = build_pairs(groups)
    alg = BatteryDistributionAlgorithm(exponent)
    res = alg.distribute_power(power, pairs)
    return pairs, res


def case_json(groups, exponent, power):
    return {"groups": [g.describe() for g in groups], "exponent": exponent, "power": power}


def case_from_json(c):
    return [group_from_json(g) for g in c["groups"]], c["exponent"], c["power"]


def nontrivial(groups, exponent, power) -> bool:
    """>= 2 groups and at least one group in the deficit regime (proportional share below
    its minimum power) or clipped at its inclusion bound."""
    if len(groups) < 2:
        return False
    sign = 1 if power > 0 else -1
    rs = [ref_group(g, sign) for g in groups]
    cap_total = sum(r["cap"] for r in rs)
    ratios = [r["cap"] / cap_total * (r["headroom"] ** exponent if r["headroom"] > 0 or exponent == 0 else 0.0) for r in rs]
    sr = sum(ratios)
    if sr <= 0:
        return False
    for r, ratio in zip(rs, ratios):
        share = abs(power) * ratio / sr
        if share < r["min_power"] - TOL or share > r["incl"] + TOL:
            return True
    return False


def input_classes(groups, exponent, power) -> tuple:
    """Input-only class tags (used for known-finding matching and reporting)."""
    sign = 1 if power > 0 else -1
    rs = [ref_group(g, sign) for g in groups]
    tags = []
    if any(r["headroom"] <= 0 and r["min_power"] > 0 for r in rs):
        tags.append("zero-headroom-group-with-exclusion-bound")
    if nontrivial(groups, exponent, power):
        tags.append("deficit-or-clipped-regime")
    return tuple(tags)
