"""E1 driver for the real BatteryManager / PVManager over the fake microgrid API.

The pool status tracker (subject of C16) is replaced harness-side by a stub that
reports every requested component as working and records ``update_status`` calls.
"""
from __future__ import annotations

import asyncio
from datetime import timedelta

from frequenz.channels import Broadcast
from frequenz.client.microgrid import (
    ApiClientError,
    Component,
    ComponentCategory,
    Connection,
    InverterType,
    OperationOutOfRange,
)
from frequenz.quantities import Power

from frequenz.sdk.microgrid._power_distributing._component_managers import _battery_manager as bm
from frequenz.sdk.microgrid._power_distributing._component_managers._pv_inverter_manager import (
    _pv_inverter_manager as pvm,
)
from frequenz.sdk.microgrid._power_distributing.request import Request

from .. import fakes
from ..vloop import virtual_loop
from . import dist

# "slow": the call succeeds shortly before the (non-integral) request timeout expires
OUTCOMES = ["ok", "range", "client", "boom", "hang", "slow"]
TIMEOUT_S = 5.5
SLOW_S = 5.2


def outcome_fails(o: str) -> bool:
    return o not in ("ok", "slow")


NOT_WORKING: set[int] = set()  # batteries the stub tracker reports as not working (set per execution)


class StubTracker:
    def __init__(self, component_ids, **kw):
        self.ids = set(component_ids)
        self.updates = []

    def get_working_components(self, comps):
        return (set(comps) & self.ids) - NOT_WORKING

    async def update_status(self, ok, failed):
        self.updates.append((set(ok), set(failed)))

    async def stop(self):
        pass


def _mk(cls):
    e = cls.__new__(cls)
    Exception.__init__(e, "injected")
    return e


def make_outcome_fn(outcomes: dict[int, str]):
    def on_set_power(cid, power, idx):
        o = outcomes.get(cid, "ok")
        if o == "ok":
            return None
        if o == "hang":
            return asyncio.get_running_loop().create_future()
        if o == "slow":
            return asyncio.sleep(SLOW_S)
        if o == "range":
            raise _mk(OperationOutOfRange)
        if o == "client":
            raise _mk(ApiClientError)
        raise RuntimeError("unexpected failure")

    return on_set_power


def battery_topology(groups: list[dist.GroupSpec], shared: str | None = None):
    """Component ids follow ``dist.build_pairs``: group g has batteries 100g+b, inverters 100g+10+i."""
    comps = {Component(1, ComponentCategory.GRID), Component(2, ComponentCategory.METER)}
    conns = {Connection(1, 2)}
    layout = []
    for gi, g in enumerate(groups):
        bats = [100 * (gi + 1) + bi for bi in range(len(g.bats))]
        invs = [100 * (gi + 1) + 10 + ii for ii in range(len(g.invs))]
        for i in invs:
            comps.add(Component(i, ComponentCategory.INVERTER, InverterType.BATTERY))
            conns.add(Connection(2, i))
        for b in bats:
            comps.add(Component(b, ComponentCategory.BATTERY))
            for i in invs:
                conns.add(Connection(i, b))
        layout.append((bats, invs))
    return comps, conns, layout


def run_battery(groups: list[dist.GroupSpec], power: float, outcomes: dict[int, str], adjust_power: bool = True,
                not_working: frozenset = frozenset(), no_data: frozenset = frozenset()):
    """One execution; returns dict(result, calls, error, tracker_updates, layout).  ``not_working``: group indexes
    whose batteries the status tracker reports as not working; ``no_data``: group indexes whose batteries have not
    sent any data yet.  Both are requested nevertheless."""
    saved = bm.ComponentPoolStatusTracker
    bm.ComponentPoolStatusTracker = StubTracker
    NOT_WORKING.clear()
    for x in not_working:  # a group index, or (group index, battery index) for a single member battery
        if isinstance(x, int):
            NOT_WORKING.update(100 * (x + 1) + bi for bi in range(len(groups[x].bats)))
        else:
            NOT_WORKING.add(100 * (x[0] + 1) + x[1])
    try:
        comps, conns, layout = battery_topology(groups)
        with virtual_loop(wall=False) as loop, fakes.fake_microgrid(comps, conns) as cm:
            api = cm.api_client
            api.on_set_power = make_outcome_fn(outcomes)
            st = Broadcast(name="st")
            res = Broadcast(name="res")
            rx = res.new_receiver()
            m = bm.BatteryManager(st.new_sender(), res.new_sender(), timedelta(seconds=TIMEOUT_S))
            loop.create_task(m.start())
            loop.settle()
            pairs = dist.build_pairs(groups)
            for pair in pairs:
                pass
            # raw per-component data (the manager aggregates them itself)
            for gi, g in enumerate(groups):
                for bi, b in enumerate(g.bats):
                    if gi in no_data:
                        continue
                    api.push(fakes.bat(100 * (gi + 1) + bi, soc=b.soc, cap=b.cap, il=-b.incl * b.lower_scale,
                                       el=-b.excl * b.lower_scale, eu=b.excl, iu=b.incl, sl=b.sl, su=b.su))
                for ii, i in enumerate(g.invs):
                    api.push(fakes.inv(100 * (gi + 1) + 10 + ii, il=-i.incl * i.lower_scale,
                                       el=-i.excl * i.lower_scale, eu=i.excl, iu=i.incl))
            loop.settle()
            all_bats = {b for bats, _ in layout for b in bats}
            t = loop.create_task(
                m.distribute_power(Request(power=Power.from_watts(power), component_ids=all_bats, adjust_power=adjust_power))
            )
            loop.settle()
            while not t.done() and loop.advance_to_next_timer(horizon=TIMEOUT_S * 3):
                loop.settle()
            out = rx.consume() if len(rx) else None
            err = None
            if not t.done():
                err = "distribute_power never returned"
            elif t.cancelled():
                err = "distribute_power ended with a CancelledError although nobody cancelled it"
            elif t.exception() is not None:
                err = repr(t.exception())
            updates = list(m._component_pool_status_tracker.updates)
            calls = list(api.set_power_calls)
            stop = loop.create_task(m.stop())
            loop.settle()
            return {"result": out, "calls": calls, "error": err, "updates": updates, "layout": layout,
                    "elapsed": loop.time()}
    finally:
        NOT_WORKING.clear()
        bm.ComponentPoolStatusTracker = saved


def run_pv(inverters: list[tuple[float, float]], power: float, outcomes: dict[int, str]):
    """``inverters``: list of (inclusion_lower, inclusion_upper) per PV inverter, ids 11, 12, ..."""
    saved = pvm.ComponentPoolStatusTracker
    pvm.ComponentPoolStatusTracker = StubTracker
    try:
        comps = {Component(1, ComponentCategory.GRID), Component(2, ComponentCategory.METER)}
        conns = {Connection(1, 2)}
        ids = [11 + k for k in range(len(inverters))]
        for i in ids:
            comps.add(Component(i, ComponentCategory.INVERTER, InverterType.SOLAR))
            conns.add(Connection(2, i))
        with virtual_loop(wall=False) as loop, fakes.fake_microgrid(comps, conns) as cm:
            api = cm.api_client
            api.on_set_power = make_outcome_fn(outcomes)
            st = Broadcast(name="st")
            res = Broadcast(name="res")
            rx = res.new_receiver()
            m = pvm.PVManager(st.new_sender(), res.new_sender(), timedelta(seconds=TIMEOUT_S))
            loop.create_task(m.start())
            loop.settle()
            for i, (lo, hi) in zip(ids, inverters):
                api.push(fakes.inv(i, il=lo, el=0.0, eu=0.0, iu=hi))
            loop.settle()
            t = loop.create_task(m.distribute_power(Request(power=Power.from_watts(power), component_ids=set(ids))))
            loop.settle()
            while not t.done() and loop.advance_to_next_timer(horizon=TIMEOUT_S * 3):
                loop.settle()
            out = rx.consume() if len(rx) else None
            err = None
            if not t.done():
                err = "distribute_power never returned"
            elif t.cancelled():
                err = "distribute_power ended with a CancelledError although nobody cancelled it"
            elif t.exception() is not None:
                err = repr(t.exception())
            calls = list(api.set_power_calls)
            loop.create_task(m.stop())
            loop.settle()
            return {"result": out, "calls": calls, "error": err, "ids": ids, "elapsed": loop.time()}
    finally:
        pvm.ComponentPoolStatusTracker = saved


def run_pv_concurrent(inverters, req_a, req_b, outcomes):
    """Two PV requests for disjoint inverter sets, the second one issued while the calls of the first are still awaited.
    req_x = (power, [indexes into ``inverters``]).  Returns a list of two dicts like run_pv()."""
    saved = pvm.ComponentPoolStatusTracker
    pvm.ComponentPoolStatusTracker = StubTracker
    try:
        comps = {Component(1, ComponentCategory.GRID), Component(2, ComponentCategory.METER)}
        conns = {Connection(1, 2)}
        ids = [11 + k for k in range(len(inverters))]
        for i in ids:
            comps.add(Component(i, ComponentCategory.INVERTER, InverterType.SOLAR))
            conns.add(Connection(2, i))
        with virtual_loop(wall=False) as loop, fakes.fake_microgrid(comps, conns) as cm:
            api = cm.api_client
            api.on_set_power = make_outcome_fn(outcomes)
            st = Broadcast(name="st")
            res = Broadcast(name="res")
            rx = res.new_receiver()
            m = pvm.PVManager(st.new_sender(), res.new_sender(), timedelta(seconds=TIMEOUT_S))
            loop.create_task(m.start())
            loop.settle()
            for i, (lo, hi) in zip(ids, inverters):
                api.push(fakes.inv(i, il=lo, el=0.0, eu=0.0, iu=hi))
            loop.settle()
            tasks = []
            for power, idxs in (req_a, req_b):
                tasks.append(loop.create_task(m.distribute_power(Request(power=Power.from_watts(power), component_ids={ids[k] for k in idxs}))))
                loop.settle()
            while not all(t.done() for t in tasks) and loop.advance_to_next_timer(horizon=TIMEOUT_S * 3):
                loop.settle()
            results = []
            while len(rx):
                results.append(rx.consume())
            out = []
            for (power, idxs), t in zip((req_a, req_b), tasks):
                want = {ids[k] for k in idxs}
                r = next((x for x in results if set(x.request.component_ids) == want), None)
                err = None
                if not t.done():
                    err = "distribute_power never returned"
                elif t.cancelled():
                    err = "distribute_power ended with a CancelledError although nobody cancelled it"
                elif t.exception() is not None:
                    err = repr(t.exception())
                out.append({"result": r, "calls": [(c, w) for c, w in api.set_power_calls if c in want], "error": err, "ids": sorted(want)})
            loop.create_task(m.stop())
            loop.settle()
            return out
    finally:
        pvm.ComponentPoolStatusTracker = saved


class BatterySession:
    """One BatteryManager instance serving several requests in sequence (cheaper than
    one instance per request; every request sees the same component data)."""

    def __init__(self, groups: list[dist.GroupSpec]):
        self.groups = groups

    def __enter__(self):
        self._saved = bm.ComponentPoolStatusTracker
        bm.ComponentPoolStatusTracker = StubTracker
        comps, conns, self.layout = battery_topology(self.groups)
        self._loop_cm = virtual_loop(wall=False)
        self.loop = self._loop_cm.__enter__()
        self._mg_cm = fakes.fake_microgrid(comps, conns)
        self.cm = self._mg_cm.__enter__()
        self.api = self.cm.api_client
        st = Broadcast(name="st")
        res = Broadcast(name="res")
        self._keep = (st, res)
        self.rx = res.new_receiver()
        self.m = bm.BatteryManager(st.new_sender(), res.new_sender(), timedelta(seconds=TIMEOUT_S))
        self.loop.create_task(self.m.start())
        self.loop.settle()
        for gi, g in enumerate(self.groups):
            for bi, b in enumerate(g.bats):
                self.api.push(fakes.bat(100 * (gi + 1) + bi, soc=b.soc, cap=b.cap, il=-b.incl * b.lower_scale,
                                        el=-b.excl * b.lower_scale, eu=b.excl, iu=b.incl, sl=b.sl, su=b.su))
            for ii, i in enumerate(g.invs):
                self.api.push(fakes.inv(100 * (gi + 1) + 10 + ii, il=-i.incl * i.lower_scale,
                                        el=-i.excl * i.lower_scale, eu=i.excl, iu=i.incl))
        self.loop.settle()
        self.all_bats = {b for bats, _ in self.layout for b in bats}
        return self

    def request(self, power: float, adjust_power: bool = True, outcomes: dict | None = None):
        self.api.on_set_power = make_outcome_fn(outcomes or {})
        n0 = len(self.api.set_power_calls)
        t = self.loop.create_task(self.m.distribute_power(
            Request(power=Power.from_watts(power), component_ids=set(self.all_bats), adjust_power=adjust_power)))
        self.loop.settle()
        while not t.done() and self.loop.advance_to_next_timer(horizon=self.loop.time() + TIMEOUT_S * 3):
            self.loop.settle()
        out = self.rx.consume() if len(self.rx) else None
        err = None
        if not t.done():
            err = "distribute_power never returned"
        elif t.cancelled():
            err = "distribute_power ended with a CancelledError although nobody cancelled it"
        elif t.exception() is not None:
            err = repr(t.exception())
        return {"result": out, "calls": self.api.set_power_calls[n0:], "error": err}

    def __exit__(self, *exc):
        try:
            self.loop.create_task(self.m.stop())
            self.loop.settle()
        finally:
            self._mg_cm.__exit__(None, None, None)
            self._loop_cm.__exit__(None, None, None)
            bm.ComponentPoolStatusTracker = self._saved
        return False
