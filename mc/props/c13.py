"""C13 — missing formula inputs propagate as None, or count as zero on request.

Same programs and streaming seam as C05; inputs now include missing values in every
encoding (None / NaN / +inf / -inf), both nones_are_zeros settings per stream and per
build, operand values that make a divisor exactly zero, and finite values whose results overflow.
"""
from __future__ import annotations

import itertools
import math

from ..core import Acc, Violation
from ..explore import pmap_acc
from . import formula as F

PID = "C13"
MISSING = [None, math.nan, math.inf, -math.inf]


def inputs_for(names, tier):
    """One timestamp per pattern: every subset of leaves missing (each encoding in turn),
    over two base vectors, plus vectors that make sub-expressions zero."""
    bases = [{n: v for n, v in zip(names, (3.0, -7.0, 0.5))}, {n: v for n, v in zip(names, (-1.0, 2.0, 0.0))}]
    if tier != "quick":
        bases.append({n: v for n, v in zip(names, (0.0, 0.0, 3.0))})
    out = []
    for base in bases:
        out.append(dict(base))
        for r in range(1, len(names) + 1):
            for subset in itertools.combinations(names, r):
                encs = MISSING if r == 1 else MISSING[:2]
                for enc in encs:
                    v = dict(base)
                    for n in subset:
                        v[n] = enc
                    out.append(v)
    # zero divisors
    for combo in itertools.product((0.0, 3.0, -3.0), repeat=len(names)):
        out.append(dict(zip(names, combo)))
    # finite inputs whose sums / products / quotients overflow (a result that is not finite is "undefined")
    for vec in OVERFLOW:
        out.append({n: vec[i % 3] for i, n in enumerate(names)})
    return out


OVERFLOW = [(-1e200, 1e200, 1e200), (-1.5e308, -1.5e308, 1.5e308), (1.5e308, -1.5e308, -1.5e308), (-1e200, 1e-200, 3.0),
            (1e200, 1e200, -1e-200)]
N_OVERFLOW = len(OVERFLOW)


def jsonv(v):
    return {k: ("NaN" if isinstance(x, float) and math.isnan(x) else "inf" if x == math.inf else "-inf" if x == -math.inf else x)
            for k, x in v.items()}


def check_tree(tree, tier, nz_leaf, nz_build):
    names = sorted(set(F.leaves_of(tree)))
    inputs = inputs_for(names, tier)
    out, errors = F.run_tree(tree, inputs, nz_leaf=nz_leaf, nz_build=nz_build)
    v = []
    got = {}
    for k, val in out:
        if k in got:
            v.append(("exactly_one_sample_per_timestamp", {"timestamp": k, "duplicate": True}))
        got[k] = val
    for k, vals in enumerate(inputs):
        exp = F.ref_eval(tree, vals, nz_leaf, nz_build)
        if k >= len(inputs) - N_OVERFLOW and k in got:
            # overflow vectors: whether an intermediate overflow makes the result "undefined" is left open
            # (x / inf == 0 is finite); accept both readings, a non-finite *final* result is None in both
            alt = F.ieee_eval(tree, vals, nz_leaf, nz_build)
            if (got[k] is None and alt is None) or (got[k] is not None and alt is not None and F.close(got[k], alt)):
                continue
        if k not in got:
            v.append(("exactly_one_sample_per_timestamp", {"timestamp": k, "inputs": jsonv(vals), "expected": exp}))
        elif (got[k] is None) != (exp is None):
            v.append(("none_exactly_when_input_missing_or_result_undefined",
                      {"timestamp": k, "inputs": jsonv(vals), "got": got[k], "expected": exp}))
        elif not F.close(got[k], exp):
            v.append(("missing_configured_as_zero_behaves_like_zero_else_value", {"timestamp": k, "inputs": jsonv(vals), "got": got[k], "expected": exp}))
        if len(v) >= 3:
            break
    return v, len(inputs)


CLAUSES = ["exactly_one_sample_per_timestamp", "none_exactly_when_input_missing_or_result_undefined",
           "missing_configured_as_zero_behaves_like_zero_else_value"]


def configs_for(tree, tier):
    names = sorted(set(F.leaves_of(tree)))
    if tree[0] == "leaf":  # no build() involved: only the stream's own setting exists
        return [({}, False), ({names[0]: True}, False)]
    cfgs = [({}, False), ({}, True), ({names[0]: True}, False)]
    if tier != "quick" and len(names) > 1:
        cfgs.append(({names[-1]: True}, False))
    return cfgs


def shard(args) -> Acc:
    if args[0] == "clip":
        return clip_shard(args[1:])
    if args[0] == "3phase":
        return three_phase_shard(args[1:])
    if args[0] == "meter":
        return meter_shard(args[1:])
    tier, n, lo, hi = args
    acc = Acc()
    progs = programs(tier, n)[lo:hi]
    for t in progs:
        for nz_leaf, nz_build in configs_for(t, tier):
            viol, n_in = check_tree(t, tier, nz_leaf, nz_build)
            acc.evaluations += n_in
            acc.transitions += n_in
            acc.traces += 1
            acc.counters["programs"] += 1
            for c in CLAUSES:
                acc.clauses[c] += 1
            if F.n_ops(t) >= 1:
                acc.nontrivial += 1
            acc.outcome(f"ops={F.n_ops(t)} nz_build={nz_build} nz_leaf={bool(nz_leaf)}")
            if acc.traces % 700 == 1:
                acc.sample({"program": F.show(t), "nones_are_zeros_leaf": nz_leaf, "nones_are_zeros_build": nz_build, "timestamps": n_in})
            for clause, detail in viol:
                acc.violation(Violation(clause, {"tree": t, "shown": F.show(t), "tier": tier, "nz_leaf": nz_leaf, "nz_build": nz_build}, detail,
                                        classes=_classes(t, detail)))
    acc.states = acc.traces
    return acc


# -- clipper steps (FormulaBuilder.push_clipper): not reachable through the operator API ---------------------

CLIP_BOUNDS = [(0.0, None), (None, 5.0), (-1.0, 2.0)]
CLIP_FORMS = ["clip(A)", "clip(A)+B", "clip((A+B))", "A*clip(B)"]


def _clip(x, lo, hi):
    if x is None:
        return None
    if lo is not None:
        x = max(x, lo)
    if hi is not None:
        x = min(x, hi)
    return x


def clip_reference(form, lo, hi, vals, nz):
    def leaf(n):
        v = vals[n]
        if F.is_missing(v):
            return 0.0 if nz.get(n, False) else None
        return float(v)

    a, b = leaf("A"), (leaf("B") if "B" in vals else None)
    if form == "clip(A)":
        return _clip(a, lo, hi)
    if form == "clip(A)+B":
        c = _clip(a, lo, hi)
        return None if c is None or b is None else c + b
    if form == "clip((A+B))":
        return None if a is None or b is None else _clip(a + b, lo, hi)
    c = _clip(b, lo, hi)
    return None if a is None or c is None else a * c


def run_clip_form(form, lo, hi, inputs, nz):
    from frequenz.channels import Broadcast
    from frequenz.quantities import Quantity

    from frequenz.sdk.timeseries import Sample
    from frequenz.sdk.timeseries.formula_engine._formula_engine import FormulaBuilder

    from ..vloop import virtual_loop

    names = ["A"] if form == "clip(A)" else ["A", "B"]
    out = []
    with virtual_loop() as loop:
        chans = {n: Broadcast(name=f"in-{n}") for n in names}
        snd = {n: c.new_sender() for n, c in chans.items()}
        b = FormulaBuilder("clipped", Quantity)

        def metric(n):
            b.push_metric(n, chans[n].new_receiver(), nones_are_zeros=nz.get(n, False))

        if form == "clip(A)":
            metric("A"); b.push_clipper(lo, hi)
        elif form == "clip(A)+B":
            metric("A"); b.push_clipper(lo, hi); b.push_oper("+"); metric("B")
        elif form == "clip((A+B))":
            b.push_oper("("); metric("A"); b.push_oper("+"); metric("B"); b.push_oper(")"); b.push_clipper(lo, hi)
        else:
            metric("A"); b.push_oper("*"); metric("B"); b.push_clipper(lo, hi)
        eng = b.build()
        rx = eng.new_receiver()
        loop.settle()
        for k, vals in enumerate(inputs):
            for n in names:
                v = vals[n]
                F.push(snd[n], Sample(F.ts(k), None if v is None else Quantity(float(v))))
            loop.settle()
            while len(rx):
                s_ = rx.consume()
                out.append((int((s_.timestamp - F.T0).total_seconds()), None if s_.value is None else s_.value.base_value))
    return out


def clip_shard(args) -> Acc:
    tier = args[0]
    acc = Acc()
    for form in CLIP_FORMS:
        names = ["A"] if form == "clip(A)" else ["A", "B"]
        inputs = inputs_for(names, tier)[: -N_OVERFLOW]
        for lo, hi in CLIP_BOUNDS:
            for nz in ({}, {"A": True}, {"B": True}) if len(names) > 1 else ({}, {"A": True}):
                out = run_clip_form(form, lo, hi, inputs, nz)
                got = dict(out)
                acc.traces += 1
                acc.evaluations += len(inputs)
                acc.transitions += len(inputs)
                acc.nontrivial += 1
                acc.counters["programs"] += 1
                for c in CLAUSES:
                    acc.clauses[c] += 1
                acc.outcome("clipper")
                viol = []
                for k, vals in enumerate(inputs):
                    exp = clip_reference(form, lo, hi, vals, nz)
                    if k not in got:
                        viol.append(("exactly_one_sample_per_timestamp", {"timestamp": k, "inputs": jsonv(vals), "expected": exp}))
                    elif (got[k] is None) != (exp is None):
                        viol.append(("none_exactly_when_input_missing_or_result_undefined",
                                     {"timestamp": k, "inputs": jsonv(vals), "got": got[k], "expected": exp}))
                    elif not F.close(got[k], exp):
                        viol.append(("missing_configured_as_zero_behaves_like_zero_else_value",
                                     {"timestamp": k, "inputs": jsonv(vals), "got": got[k], "expected": exp}))
                    if len(viol) >= 3:
                        break
                for clause, detail in viol:
                    acc.violation(Violation(clause, {"driver": "clipper", "form": form, "bounds": [lo, hi], "nz": nz, "tier": tier}, detail))
    acc.states = acc.traces
    return acc


# -- 3-phase compositions: build(nones_are_zeros=...) and missing values per phase --------------------------------


def three_phase_shard(args) -> Acc:
    tier = args[0]
    acc = Acc()
    trees = [t for t in F.trees(1, leaves=["A", "B"]) if t[0] == "bin" or t[0] == "un"]
    for t in trees:
        names = sorted(set(F.leaves_of(t)))
        base = {n: v for n, v in zip(names, ((3.0, 4.0, 1.0), (-7.0, -6.0, -9.0)))}
        inputs = [dict(base)]
        for n in names:
            for ph in range(3):
                for enc in MISSING[:2] if tier == "quick" else MISSING:
                    v = {k: tuple(x) for k, x in base.items()}
                    v[n] = tuple(enc if i == ph else x for i, x in enumerate(v[n]))
                    inputs.append(v)
        for nz_build in (False, True):
            out = F.run_tree_3phase(t, inputs, nz_build=nz_build)
            got = dict(out)
            acc.traces += 1
            acc.evaluations += len(inputs)
            acc.transitions += len(inputs)
            acc.nontrivial += 1
            acc.counters["programs"] += 1
            for c in CLAUSES:
                acc.clauses[c] += 1
            acc.outcome(f"3phase nz_build={nz_build}")
            viol = []
            for k, vals in enumerate(inputs):
                exp = tuple(F.ref_eval(t, {n: vals[n][ph] for n in names}, {}, nz_build) for ph in range(3))
                if k not in got:
                    viol.append(("exactly_one_sample_per_timestamp", {"timestamp": k, "three_phase": True}))
                elif any((g is None) != (e is None) for g, e in zip(got[k], exp)):
                    viol.append(("none_exactly_when_input_missing_or_result_undefined",
                                 {"timestamp": k, "three_phase": True, "inputs": {n: [None if F.is_missing(x) else x for x in vals[n]] for n in names},
                                  "got": list(got[k]), "expected": list(exp)}))
                elif not all(F.close(g, e) for g, e in zip(got[k], exp)):
                    viol.append(("missing_configured_as_zero_behaves_like_zero_else_value",
                                 {"timestamp": k, "three_phase": True, "got": list(got[k]), "expected": list(exp)}))
                if len(viol) >= 3:
                    break
            for clause, detail in viol:
                acc.violation(Violation(clause, {"driver": "three-phase", "tree": t, "shown": F.show(t), "nz_build": nz_build, "tier": tier}, detail))
    acc.states = acc.traces
    return acc


# -- string formulas started through LogicalMeter.start_formula with either nones_are_zeros setting -----------------

METER_FORMULAS = ["#1 + #2", "#1 * (#2 - #1)", "#1 / #2"]


def meter_plans(tier):
    items = [(f, m, nz) for f in (METER_FORMULAS[:2] if tier == "quick" else METER_FORMULAS) for m in (0, 1) for nz in (False, True)]
    return [list(p) for p in itertools.product(items, repeat=2)]


def meter_inputs(tier):
    base = {1: 3.0, 2: -7.0}
    out = [dict(base), {1: -1.0, 2: 2.0}]
    for enc in (MISSING[:2] if tier == "quick" else MISSING):
        for subset in ((1,), (2,), (1, 2)):
            v = dict(base)
            for c in subset:
                v[c] = enc
            out.append(v)
    out.append({1: 3.0, 2: 0.0})
    out.append(dict(base))
    return out


def meter_reference(entry, vals):
    f, m, nz = entry
    x = {}
    for cid, v in vals.items():
        if F.is_missing(v):
            if not nz:
                return None
            x[cid] = 0.0
        else:
            x[cid] = F.meter_value(m, v)
    return F.ref_string(f, x)


def check_meter(plan, tier):
    plan = [tuple(x) for x in plan]
    inputs = meter_inputs(tier)
    outs, _ = F.run_meter(plan, inputs, compose=False)
    viol = []
    for i, entry in enumerate(plan):
        got = dict(outs[f"s{i}"])
        for k, vals in enumerate(inputs):
            exp = meter_reference(entry, vals)
            d = {"engine": i, "timestamp": k, "inputs": jsonv({str(a): b for a, b in vals.items()}), "expected": exp}
            if k not in got:
                viol.append(("exactly_one_sample_per_timestamp", d))
            elif (got[k] is None) != (exp is None):
                viol.append(("none_exactly_when_input_missing_or_result_undefined", dict(d, got=got[k])))
            elif not F.close(got[k], exp):
                viol.append(("missing_configured_as_zero_behaves_like_zero_else_value", dict(d, got=got[k])))
            if len(viol) >= 3:
                return viol, len(inputs) * len(plan)
    return viol, len(inputs) * len(plan)


def meter_shard(args) -> Acc:
    tier, lo, hi = args
    acc = Acc()
    for plan in meter_plans(tier)[lo:hi]:
        viol, n = check_meter(plan, tier)
        acc.traces += 1
        acc.evaluations += n
        acc.transitions += n
        acc.nontrivial += 1
        acc.counters["programs"] += len(plan)
        acc.counters["logical_meter_plans"] += 1
        for c in CLAUSES:
            acc.clauses[c] += 1
        acc.outcome(f"meter same_formula_and_metric={plan[0][:2] == plan[1][:2]} nz={plan[0][2]},{plan[1][2]}")
        for clause, detail in viol:
            acc.violation(Violation(clause, {"driver": "meter", "plan": plan, "tier": tier}, detail))
    acc.states = acc.traces
    return acc


def _classes(t, detail):
    return ()


def programs(tier, n):
    if n <= 2:
        base = F.trees(n)
    else:
        base = F.trees(3, leaves=["A", "B"], consts=(2.0,))
    if n == 2 and tier != "quick":
        # nested builds: an inner .build() whose output feeds the outer formula
        extra = []
        for t in F.trees(1):
            for op in ("+", "/", "max"):
                extra.append(("bin", op, ("built", t, False), ("leaf", "C")))
                extra.append(("bin", op, ("leaf", "C"), ("built", t, True)))
        base = base + extra
    return base


def run(tier: str, seed: int, workers: int):
    shards = []
    step = 100
    for n in ([0, 1, 2] if tier == "quick" else [0, 1, 2, 3]):
        total = len(programs(tier, n))
        for lo in range(0, total, step):
            shards.append((tier, n, lo, lo + step))
    shards.append(("clip", tier))
    shards.append(("3phase", tier))
    for lo in range(0, len(meter_plans(tier)), 16):
        shards.append(("meter", tier, lo, lo + 16))
    if seed:
        import random

        random.Random(seed).shuffle(shards)
    acc = pmap_acc(shard, shards, workers)
    meta = {
        "rule": "programs as in C05 (trees with up to 2 operator nodes; thorough adds 3-node trees over two leaves and nested .build() "
        "compositions); per program 3-4 nones_are_zeros configurations (none, whole build, first / last leaf stream); inputs: one "
        "timestamp per subset of leaves missing x encoding None / NaN / +inf / -inf over 2-3 base vectors, plus all sign/zero "
        "vectors over {0, 3, -3} (zero divisors, min/max with each operand order); non-trivial = at least one operator",
        "assumptions": [
            "3-phase compositions: every one-operator tree over two FormulaEngine3Phase leaves, each (leaf, phase) missing in turn, built "
            "with and without nones_are_zeros",
            "string formulas: every ordered pair of (formula string, metric, nones_are_zeros) from 2 (quick) / 3 strings x 2 metrics x 2 settings "
            "started on one LogicalMeter (engine pool), each engine compared with the setting it was asked for",
            "clipper steps are only reachable through FormulaBuilder.push_clipper: four forms x three bound pairs x nones_are_zeros per stream",
            "lock-step delivery of inputs",
            "'configured to treat missing values as zero' = nones_are_zeros on from_receiver for that stream, or on the build() that "
            "consumes it",
        ],
        "exhaustive": True,
        "bounds": {"tree_ops": 2 if tier == "quick" else 3},
    }
    return acc, meta


def _tuplify(t):
    return tuple(_tuplify(x) if isinstance(x, list) else x for x in t)


def replay(case: dict):
    if case.get("driver") == "meter":
        v, _ = check_meter(case["plan"], case["tier"])
        return v
    if case.get("driver") == "three-phase":
        a = three_phase_shard((case["tier"],))
        return [(v.clause, v.detail) for v in a.violations.values() if v.case["shown"] == case["shown"] and v.case["nz_build"] == case["nz_build"]]
    if case.get("driver") == "clipper":
        a = clip_shard((case["tier"],))
        return [(v.clause, v.detail) for v in a.violations.values()
                if v.case["form"] == case["form"] and v.case["bounds"] == case["bounds"] and v.case["nz"] == case["nz"]]
    v, _ = check_tree(_tuplify(case["tree"]), case["tier"], case["nz_leaf"], case["nz_build"])
    return v
