"""C09 — ring buffer / moving window behaves as a sliding time-indexed map (E2).

Breadth-first search over update histories of the real ``OrderedRingBuffer`` (list and
numpy containers pre-filled with a sentinel), canonical-state dedup, a dict reference
model compared in every state, and a menu of index and datetime window queries (on and
off the slot grid) evaluated in every state.
"""
from __future__ import annotations

import copy
import itertools
import math
from datetime import datetime, timedelta, timezone

import numpy as np
from frequenz.quantities import Quantity

from frequenz.sdk.timeseries import Sample
from frequenz.sdk.timeseries._ringbuffer import OrderedRingBuffer

from ..core import Acc, Violation
from ..explore import pmap_acc

PID = "C09"
E = datetime(2024, 1, 1, tzinfo=timezone.utc)
U = timedelta(seconds=1)
SENT = -777.0
FILL = -1.0


def ts(u):
    return E + u * U


def set_unit(ms):
    """The time unit of this run (1 s by default; 50 ms gives periods like 0.1 s that are not exact in floating point)."""
    global U
    U = timedelta(milliseconds=ms)


class Ref:
    """slot index -> last valid value written (None = written as missing / never written)."""

    def __init__(self, cap, period, align):
        self.cap, self.P, self.align = cap, period, align
        self.slots = {}
        self.newest = None

    def norm(self, u):
        q, r = divmod(u - self.align, self.P)
        if r * 2 > self.P or (r * 2 == self.P and q % 2 == 1):
            q += 1
        return q

    def update(self, u, val):
        k = self.norm(u)
        if self.newest is not None and k < self.newest - self.cap + 1:
            return False
        self.newest = k if self.newest is None else max(self.newest, k)
        self.slots[k] = val
        for j in list(self.slots):
            if j < self.newest - self.cap + 1:
                del self.slots[j]
        return True

    def content(self):
        if self.newest is None:
            return {}
        return {k: self.slots.get(k) for k in range(self.newest - self.cap + 1, self.newest + 1)}

    def slot_time(self, k):
        return ts(self.align + k * self.P)


def mk(cap, period, align, container):
    buf = [SENT] * cap if container == "list" else np.full(cap, SENT, dtype=float)
    return OrderedRingBuffer(buf, period * U, ts(align)), Ref(cap, period, align)


def tolist(w):
    return [float(x) for x in w]


def same(a, b):
    if len(a) != len(b):
        return False
    for x, y in zip(a, b):
        if isinstance(x, float) and isinstance(y, float) and math.isnan(x) and math.isnan(y):
            continue
        if x != y:
            return False
    return True


def slot_of(ref, t):
    return (t - ref.slot_time(0)) / (ref.P * U)


def check_state(rb, ref, queries=True):
    """Returns (clause, detail) of the first failed clause, or None."""
    try:
        return _check_state(rb, ref, queries)
    except Exception as e:  # noqa: BLE001 - a query that raises on a consistent buffer is a failure of the buffer
        import traceback

        tb = traceback.extract_tb(e.__traceback__)
        where = [f"{f.filename.split('/')[-1]}:{f.lineno}" for f in tb][-3:]
        return ("query_does_not_raise", {"exception": repr(e), "where": where})


def _check_state(rb, ref, queries=True):
    c = ref.content()
    valid = [k for k, v in c.items() if v is not None]
    P = ref.P
    if rb.count_valid() != len(valid):
        return ("count_valid_matches_content", {"got": rb.count_valid(), "expected": len(valid)})
    if ref.newest is None:
        return None
    # gaps: compared as the set of slots they denote + sorted/disjoint
    missing = {k for k, v in c.items() if v is None}
    got = set()
    prev_end = None
    for g in rb.gaps:
        a, b = slot_of(ref, g.start), slot_of(ref, g.end)
        if a != int(a) or b != int(b):
            return ("gaps_on_slot_grid", {"gap": [str(g.start), str(g.end)]})
        if prev_end is not None and a < prev_end:
            return ("gaps_sorted_and_disjoint", {"gaps": [[str(x.start), str(x.end)] for x in rb.gaps]})
        prev_end = b
        got |= set(range(int(a), int(b)))
    if valid and got != missing:
        return ("gaps_denote_exactly_the_slots_without_valid_value", {"got": sorted(got), "expected": sorted(missing)})
    for k in c:
        if valid and rb.is_missing(ref.slot_time(k)) != (c[k] is None):
            return ("is_missing_matches_content", {"slot": k, "got": rb.is_missing(ref.slot_time(k))})
    if not valid:
        if rb.oldest_timestamp is not None or rb.newest_timestamp is not None:
            return ("timestamps_none_when_no_valid_value", {"oldest": str(rb.oldest_timestamp)})
        w = tolist(rb.window(None, None, fill_value=FILL))
        if any(x == SENT for x in w):
            return ("window_never_returns_unwritten_slot", {"window": w})
        return None
    if rb.oldest_timestamp != ref.slot_time(min(valid)):
        return ("oldest_timestamp_is_oldest_valid_slot", {"got": str(rb.oldest_timestamp), "expected_slot": min(valid)})
    if rb.newest_timestamp not in (ref.slot_time(ref.newest), ref.slot_time(max(valid))):
        return ("newest_timestamp_is_newest_slot", {"got": str(rb.newest_timestamp), "newest_written": ref.newest, "newest_valid": max(valid)})
    if not queries:
        return None
    lo_w, hi_w = min(c), max(c)
    ov, nv = min(valid), max(valid)

    def content_list(a, b, fill):
        return [(c[k] if c.get(k) is not None else fill) for k in range(a, b)]

    # stored content through the full window
    for fill in (FILL, 0.0, math.nan):
        full = tolist(rb.window(None, None, fill_value=fill))
        if not same(full, content_list(ov, ref.newest + 1, fill)) and not same(full, content_list(ov, nv + 1, fill)):
            return ("full_window_is_stored_content", {"got": full, "expected": content_list(ov, ref.newest + 1, fill)})
    # index queries: python slice semantics over the covered range
    covered = content_list(ov, ref.newest + 1, FILL)
    covered_alt = content_list(ov, nv + 1, FILL)
    n = ref.cap + 1
    idxs = [None] + list(range(-n, n + 1))
    for a, b in itertools.product(idxs, idxs):
        w = tolist(rb.window(a, b, fill_value=FILL))
        e1, e2 = covered[slice(a, b)], covered_alt[slice(a, b)]
        if not same(w, e1) and not same(w, e2):
            return ("index_window_is_slice_of_covered_content", {"query": [a, b], "got": w, "expected": e1})
    # datetime queries on the half-slot grid
    half = P / 2.0
    grid = []
    x = (lo_w - 2) * P
    while x <= (ref.newest + 2) * P:
        grid.append(x)
        x += half if half == int(half) else 1
    for qa, qb in itertools.product(grid, grid):
        if qb < qa:
            continue
        for fill in ((FILL, 0.0) if (qa, qb) == (grid[0], grid[-1]) else (FILL,)):
            w = tolist(rb.window(ts(ref.align) + qa * U, ts(ref.align) + qb * U, fill_value=fill))
            fa, fb = qa / P, qb / P
            los = {math.floor(fa), math.ceil(fa)}
            his = {math.floor(fb), math.ceil(fb)}
            maxlen = math.ceil((qb - qa) / P)
            ok = False
            cands = []
            for lo, hi in itertools.product(los, his):
                for clip_lo in (ov, lo_w):
                    for clip_hi in (ref.newest + 1, nv + 1):
                        exp = content_list(max(lo, clip_lo), min(hi, clip_hi), fill)
                        cands.append(exp)
                        if same(w, exp):
                            ok = True
            if not ok:
                return ("datetime_window_is_content_of_covered_slots",
                        {"query_units": [qa, qb], "period_units": P, "got": w, "acceptable": cands[:4]})
            if len(w) > max(maxlen, 0):
                return ("window_not_longer_than_query_span", {"query_units": [qa, qb], "len": len(w), "max": maxlen})
    return None


def roundtrip(rb):
    import os
    import tempfile

    from frequenz.sdk.timeseries._ringbuffer.serialization import dump, load

    fd, path = tempfile.mkstemp(prefix="verif_c09_", suffix=".pkl")
    os.close(fd)
    try:
        dump(rb, path)
        return load(path)
    finally:
        os.unlink(path)


QUERY_CLAUSES = {"full_window_is_stored_content", "index_window_is_slice_of_covered_content",
                 "datetime_window_is_content_of_covered_slots", "window_not_longer_than_query_span"}


def key(rb, ref):
    n = rb._timestamp_newest
    if n == rb._TIMESTAMP_MIN:
        return None
    raw = list(rb._buffer)
    ren = {}
    out = []
    for v in raw:
        v = float(v)
        if math.isnan(v):
            out.append("nan")
        else:
            out.append(ren.setdefault(v, len(ren)))
    gaps = tuple((int((g.start - n) / U), int((g.end - n) / U)) for g in rb.gaps)
    return (ref.newest % len(raw), tuple(out), gaps)


def bfs(args) -> Acc:
    tier, cap, period, align, container, depth, unit_ms = args
    set_unit(unit_ms)
    acc = Acc()
    rb0, ref0 = mk(cap, period, align, container)
    seen = {key(rb0, ref0)}
    frontier = [(rb0, ref0, [])]
    counter = 0
    step = 1 if period % 2 else period // 2  # half-period offsets when representable
    for _ in range(depth):
        nxt = []
        for rb, ref, hist in frontier:
            base = align if ref.newest is None else align + ref.newest * period
            d = -(2 * cap * period) - step
            while d <= (2 * cap + 3) * period // 2 + period:
                for kind in ("v", "none", "nan"):
                    if kind == "nan" and d % period:
                        continue  # NaN behaves like None; keep it to on-grid updates
                    rb2 = copy.deepcopy(rb)
                    ref2 = copy.deepcopy(ref)
                    counter += 1
                    val = float(counter)
                    u = base + d
                    q = Quantity(val) if kind == "v" else (None if kind == "none" else Quantity(math.nan))
                    ok = ref2.update(u, val if kind == "v" else None)
                    acc.transitions += 1
                    acc.evaluations += 1
                    try:
                        rb2.update(Sample(ts(u), q))
                        got_ok = True
                    except IndexError:
                        got_ok = False
                    except Exception as exc:  # noqa: BLE001
                        got_ok, crash = None, repr(exc)
                    h = hist + [(d, kind)]
                    case = {"capacity": cap, "period": period, "align": align, "container": container, "history": h, "unit_ms": unit_ms}
                    acc.clauses["old_updates_rejected_others_accepted"] += 1
                    if got_ok is None:
                        acc.violation(Violation("update_does_not_crash", case, {"exception": crash}))
                        continue
                    if ok != got_ok:
                        acc.violation(Violation("old_updates_rejected_others_accepted", case,
                                                {"expected_accepted": ok, "accepted": got_ok}))
                        continue
                    if not ok:
                        # a rejected update must leave the state unchanged
                        if key(rb2, ref2) != key(rb, ref):
                            acc.violation(Violation("rejected_update_leaves_state_unchanged", case, {}))
                        continue
                    k = key(rb2, ref2)
                    new = k not in seen
                    # queries are evaluated once per canonical state (they do not change it);
                    # the cheap content invariants on every transition
                    e = check_state(rb2, ref2, queries=new)
                    acc.clauses["state_invariants"] += 1
                    if e:
                        acc.violation(Violation(e[0], case, e[1], classes=_classes(e)))
                        if e[0] not in QUERY_CLAUSES:
                            continue  # content is wrong: do not build on this state
                    if new:
                        # serialization round trip: a dumped and re-loaded buffer is the same time-indexed map
                        rt = roundtrip(rb2)
                        acc.clauses["dump_load_round_trip_preserves_content"] += 1
                        e2 = None if rt is None else check_state(rt, ref2, queries=False)
                        if rt is None or e2 or key(rt, ref2) != k:
                            acc.violation(Violation("dump_load_round_trip_preserves_content", case,
                                                    {"loaded": rt is not None, "first_difference": None if not e2 else [e2[0], e2[1]]}))
                        seen.add(k)
                        nxt.append((rb2, ref2, h))
                        acc.traces += 1
                        acc.clauses["window_queries_in_state"] += 1
                        if len(h) >= 2 and any(x[0] % period for x in h):
                            acc.nontrivial += 1
                        if len(seen) % 300 == 2:
                            acc.sample({"config": {k_: case[k_] for k_ in ("capacity", "period", "align", "container", "unit_ms")},
                                        "history_offsets_from_newest": h, "content": {str(a): b for a, b in ref2.content().items()}})
                d += step
        frontier = nxt
    acc.states = len(seen)
    acc.outcome(f"cap={cap} P={period}x{unit_ms}ms align={align} {container}: states={len(seen)}")
    return acc


def _classes(e):
    if e[0] in ("datetime_window_is_content_of_covered_slots", "window_not_longer_than_query_span"):
        q = e[1].get("query_units")
        P = e[1].get("period_units")
        if q and P and (q[0] % P or q[1] % P):
            return ("off-grid-datetime-query",)
    return ()


def replay(case: dict):
    if case.get("driver") == "landing":
        a = landing_shard(())
        return [(v.clause, v.detail) for v in a.violations.values() if v.case == case]
    if case.get("driver") == "moving-window":
        return mw_history(case["capacity"], [tuple(h) for h in case["history"]], case.get("align_offset_s", 0.0))
    set_unit(case.get("unit_ms", 1000))
    rb, ref = mk(case["capacity"], case["period"], case["align"], case["container"])
    counter = 0
    for d, kind in case["history"]:
        base = case["align"] if ref.newest is None else case["align"] + ref.newest * case["period"]
        counter += 1
        u = base + d
        val = float(counter)
        q = Quantity(val) if kind == "v" else (None if kind == "none" else Quantity(math.nan))
        ok = ref.update(u, val if kind == "v" else None)
        try:
            rb.update(Sample(ts(u), q))
            got = True
        except IndexError:
            got = False
        if ok != got:
            return [("old_updates_rejected_others_accepted", {"expected_accepted": ok, "accepted": got})]
    e = check_state(rb, ref)
    return [e] if e else []


# -- MovingWindow: the real class fed through its channel on the virtual loop ----------


def mw_history(cap, hist, off_s=0.0):
    """hist: list of (slot offset from the newest slot (>= -(cap-1)), kind). Returns violations."""
    from frequenz.channels import Broadcast

    from frequenz.sdk.timeseries import MovingWindow

    from ..vloop import virtual_loop
    from . import formula as F

    # off_s: the window's align_to lies `off_s` seconds off the whole-second grid, and so do all samples and keys
    E = globals()["E"] + timedelta(seconds=off_s)
    v = []
    with virtual_loop(wall=True) as loop:
        ch = Broadcast(name="in")
        mw = MovingWindow(size=timedelta(seconds=cap), resampled_data_recv=ch.new_receiver(), input_sampling_period=timedelta(seconds=1),
                          **({"align_to": E} if off_s else {}))
        mw._buffer._buffer[:] = SENT  # np.empty() gives uninitialised memory: make stale content recognisable
        mw.start()
        loop.settle()
        snd = ch.new_sender()
        slots = {}
        newest = None
        counter = 0
        for d, kind in hist:
            k = d if newest is None else newest + d
            counter += 1
            val = float(counter)
            q = Quantity(val) if kind == "v" else None
            F.push(snd, Sample(E + timedelta(seconds=k), q))
            loop.settle()
            newest = k if newest is None else max(newest, k)
            slots[k] = val if kind == "v" else None
            for j in list(slots):
                if j < newest - cap + 1:
                    del slots[j]
        content = {k: slots.get(k) for k in range(newest - cap + 1, newest + 1)}
        valid = [k for k, x in content.items() if x is not None]
        if not mw.is_running:
            v.append(("moving_window_task_survives_in_window_updates", {}))
        if valid:
            ov, nw = min(valid), newest
            L = [content[k] for k in range(ov, nw + 1)]
            L_alt = [content[k] for k in range(ov, max(valid) + 1)]
            for idx in range(-cap - 2, cap + 3):
                exp = "IndexError"
                if -len(L) <= idx < len(L):
                    exp = L[idx]
                exp_alt = "IndexError"
                if -len(L_alt) <= idx < len(L_alt):
                    exp_alt = L_alt[idx]
                try:
                    got = float(mw.at(idx))
                except IndexError:
                    got = "IndexError"
                ok = any((e == "IndexError" and got == "IndexError") or (e is None and got != "IndexError" and math.isnan(got))
                         or (e not in (None, "IndexError") and got == e) for e in (exp, exp_alt))
                if not ok:
                    v.append(("moving_window_at_index_returns_stored_value_or_nan_or_raises", {"index": idx, "got": got, "expected": exp, "covered": L}))
                    break
            for k in range(ov - 2, nw + 3):
                exp = "IndexError" if not (ov <= k <= nw) else content[k]
                try:
                    got = float(mw.at(E + timedelta(seconds=k)))
                except IndexError:
                    got = "IndexError"
                ok = (exp == "IndexError" and got == "IndexError") or (exp is None and got != "IndexError" and math.isnan(got)) or \
                     (exp not in (None, "IndexError") and got == exp) or (k > max(valid) and got == "IndexError")
                if not ok:
                    v.append(("moving_window_at_timestamp_returns_stored_value_or_nan_or_raises", {"slot": k, "got": got, "expected": exp}))
                    break
            # keys off the slot grid: the value of one of the two neighbouring slots (NaN if that slot holds no valid
            # value) or IndexError outside the covered range - never the content of an evicted or unwritten slot
            for k in range(ov - 1, nw + 1):
                for frac in (0.4, 0.6):
                    x = k + frac
                    acceptable = []
                    for j in (k, k + 1):
                        if ov <= j <= nw:
                            acceptable.append(content[j])
                    if x < ov or x > nw or not acceptable:
                        acceptable.append("IndexError")
                    try:
                        got = float(mw.at(E + timedelta(seconds=x)))
                    except IndexError:
                        got = "IndexError"
                    ok = any((e == "IndexError" and got == "IndexError") or (e is None and got != "IndexError" and math.isnan(got))
                             or (e not in (None, "IndexError") and got == e) for e in acceptable) or (x > max(valid) and got == "IndexError")
                    if not ok:
                        v.append(("moving_window_at_unaligned_timestamp_returns_neighbouring_slot_value_or_nan_or_raises",
                                  {"key_s": x, "got": got, "acceptable": acceptable, "content": {str(a): b for a, b in content.items()}}))
                        break
                if v:
                    break
            full = [float(x) for x in mw[:]]
            expf = [x if x is not None else math.nan for x in L]
            expf_alt = [x if x is not None else math.nan for x in L_alt]
            if not same(full, expf) and not same(full, expf_alt):
                v.append(("moving_window_slice_is_covered_content", {"got": full, "expected": expf}))
        loop.create_task(mw.stop())
        loop.settle()
    return v


def mw_shard(args) -> Acc:
    tier, cap, first, depth = args
    acc = Acc()
    offsets = list(range(-(cap - 1), cap + 2))
    events = [(d, k) for d in offsets for k in ("v", "none")]
    for tail in itertools.product(events, repeat=depth - 1):
        hist = [first, *tail]
        viol = mw_history(cap, hist, 0.3 if cap % 2 else 0.0)  # odd capacities: window aligned 0.3 s off the grid
        acc.evaluations += 1
        acc.traces += 1
        acc.transitions += len(hist)
        acc.clauses["moving_window_queries"] += 1
        if any(d > 1 for d, _ in hist[1:]) or any(k == "none" for _, k in hist):
            acc.nontrivial += 1
        acc.state(repr(("mw", cap, hist)))
        for clause, detail in viol:
            acc.violation(Violation(clause, {"driver": "moving-window", "capacity": cap, "history": [list(h) for h in hist],
                                             "align_offset_s": 0.3 if cap % 2 else 0.0}, detail))
    acc.outcome(f"moving-window cap={cap}")
    return acc


def landing_shard(_args) -> Acc:
    """Where does a single off-grid update land?  For alignment points near and very far (year 1, year 9000) from the
    data, periods of 1 s and 0.2 s, and timestamps a few microseconds around the midpoint between two slots: the
    value must be readable at the nearest slot (exact integer arithmetic), and nowhere else."""
    from datetime import datetime, timezone

    acc = Acc()
    aligns = [datetime(1970, 1, 1, tzinfo=timezone.utc), datetime(1, 1, 1, tzinfo=timezone.utc), datetime(2000, 1, 1, tzinfo=timezone.utc),
              datetime(9000, 1, 1, tzinfo=timezone.utc)]
    base = datetime(2024, 1, 1, 0, 0, 0, tzinfo=timezone.utc)
    for align in aligns:
        for period_us in (1_000_000, 200_000):
            P = timedelta(microseconds=period_us)
            for container in ("list", "numpy"):
                for k in (0, 1, 2, 3):
                    for eps in (-3, -1, 1, 3, -period_us // 2 + 1, period_us // 2 - 1):
                        rb = OrderedRingBuffer([SENT] * 8 if container == "list" else np.full(8, SENT, dtype=float), P, align)
                        # slot grid relative to the alignment point
                        off = (base - align) % P
                        slot0 = base - off  # a grid point at or before `base`
                        t = slot0 + k * P + P / 2 + timedelta(microseconds=eps)
                        exp_slot = slot0 + (k + (1 if eps > 0 else 0)) * P
                        rb.update(Sample(slot0 - P, Quantity(1.0)))
                        rb.update(Sample(t, Quantity(7.0)))
                        acc.evaluations += 1
                        acc.traces += 1
                        acc.transitions += 2
                        acc.nontrivial += 1
                        acc.clauses["off_grid_update_lands_in_nearest_slot"] += 1
                        try:
                            got = tolist(rb.window(exp_slot, exp_slot + P, fill_value=FILL))
                            newest = rb.newest_timestamp
                        except Exception as e:  # noqa: BLE001
                            got, newest = repr(e), None
                        if got != [7.0] or newest != exp_slot:
                            acc.violation(Violation("off_grid_update_lands_in_nearest_slot",
                                                    {"driver": "landing", "align": align.isoformat(), "period_us": period_us, "container": container,
                                                     "k": k, "eps_us": eps},
                                                    {"expected_slot": exp_slot.isoformat(), "window_at_expected_slot": got,
                                                     "newest_timestamp": None if newest is None else newest.isoformat()}))
    acc.states = acc.evaluations
    acc.outcome("landing")
    return acc


def _dispatch(args):
    if args[0] == "mw":
        return mw_shard(args[1:])
    if args[0] == "landing":
        return landing_shard(args[1:])
    return bfs(args)


def run(tier: str, seed: int, workers: int):
    shards = []
    for cap in ([3, 4] if tier == "quick" else [2, 3, 4, 5]):
        for k in ("v", "none"):
            shards.append(("mw", tier, cap, (0, k), 4 if tier == "quick" else 5))
    caps = [1, 2, 3, 4] if tier == "quick" else [1, 2, 3, 4, 5]
    depth = 5 if tier == "quick" else 6
    for cap in caps:
        for period, align in ([(2, 0), (2, 1), (3, 0)] if tier == "quick" else [(2, 0), (2, 1), (3, 0), (3, 1), (4, 2)]):
            for container in ("list", "numpy"):
                dd = depth if cap <= 3 else depth - 1
                shards.append((tier, cap, period, align, container, dd, 1000))
        # sampling periods that are not exactly representable as floats (0.1 s, 0.3 s)
        for period, align, unit_ms in ([(2, 0, 50), (3, 1, 100)] if tier == "quick" else [(2, 0, 50), (2, 1, 50), (3, 1, 100), (3, 0, 100)]):
            shards.append((tier, cap, period, align, "list" if cap % 2 else "numpy", depth - 1, unit_ms))
    shards.append(("landing",))
    if seed:
        import random

        random.Random(seed).shuffle(shards)
    acc = pmap_acc(_dispatch, shards, workers)
    meta = {
        "rule": "BFS over update histories: timestamp = newest slot + d time units for every d from two windows back to beyond "
        "the capacity ahead (on and off the slot grid, incl. exact half-period ties), value valid / None / NaN; states "
        "deduplicated on (wrap position, raw backing array incl. stale slots with valid values renamed by first occurrence, "
        "gap list relative to newest); in every state: content, count, gaps, oldest/newest, is_missing, every index pair from "
        "{None, -cap-1..cap+1}^2 and every datetime pair on the half-slot grid from two periods before the window to two "
        "periods after; non-trivial state = history of >= 2 updates with an off-grid timestamp; plus the real MovingWindow fed through its "
        "channel on the virtual loop: every in-window update history of depth 4 (quick) / 5, capacities 3-4 (2-5), checking at(index), "
        "at(timestamp) and [:] (odd capacities with the window's align_to 0.3 s off the whole-second grid); plus a landing pass: one off-grid update a few microseconds around the midpoint between two slots, for "
        "alignment points in the years 1, 1970, 2000 and 9000, periods 1 s and 0.2 s, both containers",
        "assumptions": [
            "payload values only matter through validity, so valid values are renamed in the state key",
            "off-grid query endpoints: either neighbouring slot boundary is accepted; leading slots before the oldest valid "
            "value and a trailing missing newest slot may be omitted or filled",
            "off-grid updates go to the nearest slot, exact ties to the even slot (documented normalisation)",
        ],
        "exhaustive": True,
        "bounds": {"capacities": caps, "depth": depth},
    }
    return acc, meta
