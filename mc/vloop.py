"""E1 substrate: a virtual-time asyncio event loop that the harness steps by hand.

The loop keeps asyncio's own contract: callbacks scheduled with ``call_soon`` run in
FIFO order, one *iteration* moves due timers to the ready queue and then runs exactly
the handles that were ready when the iteration began (``BaseEventLoop._run_once``).
Nothing here reorders the ready queue; nondeterminism only enters through what the
harness injects between iterations and through how far it advances the clock.
"""
from __future__ import annotations

import asyncio
import collections.abc
import gc
import heapq
import os
import signal
import threading
from asyncio import events
from contextlib import contextmanager
from datetime import datetime, timedelta, timezone

import time_machine

T0_WALL = datetime(2024, 1, 1, 0, 0, 0, tzinfo=timezone.utc)
_EPS = 1e-9


class Stall(RuntimeError):
    """Raised when an execution does not become quiescent within its step budget."""


class VLoop(asyncio.BaseEventLoop):
    """Virtual-time loop: no selector, explicit stepping, optional bound wall clock."""

    def __init__(self, traveller=None, wall0: datetime = T0_WALL):
        super().__init__()
        self._vtime = 0.0
        self._traveller = traveller
        self._wall0 = wall0
        self.steps = 0
        self.iterations = 0
        self.unhandled: list[dict] = []
        self.set_exception_handler(self._on_unhandled)

    # -- BaseEventLoop plumbing ------------------------------------------------
    def time(self) -> float:  # noqa: D102
        return self._vtime

    def _process_events(self, event_list):  # pragma: no cover - no selector
        pass

    def _write_to_self(self):
        pass

    def _on_unhandled(self, loop, context):
        self.unhandled.append(
            {"message": context.get("message"), "exception": repr(context.get("exception"))}
        )

    # -- clock -------------------------------------------------------------------
    def set_time(self, t: float) -> None:
        """Move the virtual clock (monotonic and, if bound, wall) to ``t`` seconds."""
        assert t >= self._vtime - _EPS, (t, self._vtime)
        self._vtime = max(self._vtime, t)
        if self._traveller is not None:
            self._traveller.move_to(self._wall0 + timedelta(seconds=self._vtime))

    def wall_now(self) -> datetime:
        return self._wall0 + timedelta(seconds=self._vtime)

    # -- stepping ----------------------------------------------------------------
    def _pop_cancelled_timers(self) -> None:
        while self._scheduled and self._scheduled[0]._cancelled:
            h = heapq.heappop(self._scheduled)
            h._scheduled = False

    def next_timer(self) -> float | None:
        self._pop_cancelled_timers()
        return self._scheduled[0]._when if self._scheduled else None

    def has_due_timer(self) -> bool:
        t = self.next_timer()
        return t is not None and t <= self._vtime + _EPS

    def has_ready(self) -> bool:
        return any(not h._cancelled for h in self._ready)

    def quiescent(self) -> bool:
        """No runnable handle and no timer due at the current instant."""
        return not self.has_ready() and not self.has_due_timer()

    def run_iteration(self) -> int:
        """One ``_run_once``: due timers become ready, then run the handles ready now."""
        while self._scheduled and self._scheduled[0]._when <= self._vtime + _EPS:
            h = heapq.heappop(self._scheduled)
            h._scheduled = False
            if not h._cancelled:
                self._ready.append(h)
        n = len(self._ready)
        ran = 0
        for _ in range(n):
            h = self._ready.popleft()
            if not h._cancelled:
                self.steps += 1
                ran += 1
                h._run()
        self.iterations += 1
        return ran

    def settle(self, max_iter: int = 20000) -> int:
        """Run iterations until quiescent at the current instant."""
        i = 0
        while not self.quiescent():
            self.run_iteration()
            i += 1
            if i > max_iter:
                raise Stall("not quiescent after %d iterations" % max_iter)
        return i

    def advance(self, dt: float, late: float = 0.0, max_iter: int = 200000) -> None:
        """Advance the clock by ``dt`` firing every timer on the way, settling after each.

        ``late``: each timer wake-up happens ``late`` seconds after its deadline (a busy
        loop), never beyond the target instant.
        """
        target = self._vtime + dt
        self.settle(max_iter)
        n = 0
        while True:
            t = self.next_timer()
            if t is None or t > target + _EPS:
                break
            self.set_time(min(max(t + late, self._vtime), target))
            self.settle(max_iter)
            n += 1
            if n > max_iter:
                raise Stall("timer storm")
        self.set_time(target)
        self.settle(max_iter)

    def advance_to_next_timer(self, late: float = 0.0, horizon: float | None = None) -> bool:
        t = self.next_timer()
        if t is None or (horizon is not None and t > horizon + _EPS):
            return False
        self.set_time(max(self._vtime, t + late))
        return True

    def run_until_complete_v(self, fut, horizon: float = 1e9):
        """Drive until ``fut`` is done, advancing virtual time as needed."""
        fut = asyncio.ensure_future(fut, loop=self)
        while not fut.done():
            self.settle()
            if fut.done():
                break
            if not self.advance_to_next_timer(horizon=horizon):
                raise Stall("future never completes: %r" % (fut,))
        return fut.result()


class WatchdogTimeout(KeyboardInterrupt):
    """One execution ran for longer than the wall-clock limit: code that never yields to the loop cannot be
    pre-empted by the virtual scheduler, so a real timer interrupts it.  Derived from KeyboardInterrupt because
    that is what asyncio's Task and Handle let through."""


WATCHDOG_S = float(os.environ.get("VERIF_WATCHDOG_S", "120"))


def _on_alarm(signum, frame):
    raise WatchdogTimeout(f"an execution did not finish within {WATCHDOG_S:.0f} s of wall-clock time")


def arm_watchdog() -> None:
    if threading.current_thread() is threading.main_thread():
        signal.signal(signal.SIGALRM, _on_alarm)
        signal.setitimer(signal.ITIMER_REAL, WATCHDOG_S)


def disarm_watchdog() -> None:
    if threading.current_thread() is threading.main_thread():
        signal.setitimer(signal.ITIMER_REAL, 0)


@contextmanager
def virtual_loop(wall: bool = False, wall0: datetime = T0_WALL):
    """Install a fresh VLoop as the running loop for the duration of the block.

    With ``wall=True`` the wall clock (``datetime.now``, ``time.time``) is frozen with
    time_machine and moved in lock-step with the virtual clock.
    """
    gc_was = gc.isenabled()
    gc.disable()
    trav_cm = time_machine.travel(wall0, tick=False) if wall else None
    traveller = trav_cm.start() if trav_cm else None
    loop = VLoop(traveller, wall0)
    events._set_running_loop(loop)
    asyncio.set_event_loop(loop)
    arm_watchdog()
    try:
        yield loop
    finally:
        try:
            teardown(loop)
        finally:
            disarm_watchdog()
            events._set_running_loop(None)
            asyncio.set_event_loop(None)
            loop.close()
            if trav_cm:
                trav_cm.stop()
            if gc_was:
                gc.enable()


def teardown(loop: VLoop) -> None:
    """Orderly end of an execution: cancel every task, drain, close async generators."""
    for _ in range(50):
        pending = [t for t in asyncio.all_tasks(loop) if not t.done()]
        if not pending:
            break
        for t in pending:
            t.cancel()
        try:
            loop.settle()
        except Stall:
            break
    for t in asyncio.all_tasks(loop):
        if t.done() and not t.cancelled():
            t.exception()  # mark retrieved; unhandled ones were recorded by scenarios
    agens = list(loop._asyncgens)
    if agens:
        loop._asyncgens.clear()
        tasks = [loop.create_task(ag.aclose()) for ag in agens]
        try:
            loop.settle()
        except Stall:
            pass
        for t in tasks:
            if t.done() and not t.cancelled():
                t.exception()
    loop._ready.clear()
    loop._scheduled.clear()


class OrderedDoneSet(collections.abc.MutableSet):
    """A set of tasks that iterates in a harness-chosen, address-independent order
    (insertion order), and stays consistent when the caller mutates it."""

    def __init__(self, items=()):
        self._d = dict.fromkeys(items)

    def __contains__(self, x):
        return x in self._d

    def __iter__(self):
        return iter(list(self._d))

    def __len__(self):
        return len(self._d)

    def add(self, x):
        self._d[x] = None

    def discard(self, x):
        self._d.pop(x, None)

    def copy(self):
        return OrderedDoneSet(self._d)

    def update(self, *others):
        for o in others:
            for x in o:
                self.add(x)

    def union(self, *others):
        r = self.copy()
        r.update(*others)
        return r

    def difference(self, *others):
        r = self.copy()
        for o in others:
            for x in o:
                r.discard(x)
        return r

    def __repr__(self):
        return f"OrderedDoneSet({list(self._d)!r})"


_orig_wait = asyncio.wait
_task_seq: dict[int, int] = {}


def install_ordered_wait(permute=None):
    """Replace ``asyncio.wait`` so that the ``done`` set iterates in creation order.

    ``asyncio.wait`` returns plain sets whose iteration order depends on object
    addresses. ``permute(n_done)`` (optional) may pick another order (a choice point);
    it returns a permutation index list.
    """

    async def wait(fs, *, timeout=None, return_when=asyncio.ALL_COMPLETED):
        fs = list(fs)
        index = {id(f): i for i, f in enumerate(fs)}
        done, pending = await _orig_wait(fs, timeout=timeout, return_when=return_when)
        d = sorted(done, key=lambda f: index[id(f)])
        if permute is not None and len(d) > 1:
            order = permute(len(d))
            d = [d[i] for i in order]
        p = sorted(pending, key=lambda f: index[id(f)])
        return OrderedDoneSet(d), OrderedDoneSet(p)

    asyncio.wait = wait
    asyncio.tasks.wait = wait


def uninstall_ordered_wait():
    asyncio.wait = _orig_wait
    asyncio.tasks.wait = _orig_wait
