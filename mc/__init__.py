"""Model-checking machinery for frequenz-sdk-python (see /verif/DESIGN.md)."""
