"""Harness-side fakes: component data builders, fake microgrid API client and connection
manager. Nothing here is part of the code under test."""
from __future__ import annotations

import asyncio
import math
from contextlib import contextmanager
from datetime import datetime, timezone
from typing import Any, Callable

from frequenz.channels import Broadcast
from frequenz.client.microgrid import (
    BatteryComponentState,
    BatteryData,
    BatteryRelayState,
    Component,
    ComponentCategory,
    Connection,
    EVChargerCableState,
    EVChargerComponentState,
    EVChargerData,
    InverterComponentState,
    InverterData,
    InverterType,
    MeterData,
)

from frequenz.sdk.microgrid import connection_manager
from frequenz.sdk.microgrid.component_graph import _MicrogridComponentGraph

T0 = datetime(2024, 1, 1, tzinfo=timezone.utc)
NAN = math.nan
NAN3 = (NAN, NAN, NAN)


def bat(cid, ts=T0, soc=50.0, cap=1000.0, il=-1000.0, el=0.0, eu=0.0, iu=1000.0, sl=20.0, su=80.0,
        relay=BatteryRelayState.CLOSED, state=BatteryComponentState.IDLE, errors=None) -> BatteryData:
    return BatteryData(
        component_id=cid, timestamp=ts, soc=soc, soc_lower_bound=sl, soc_upper_bound=su, capacity=cap,
        power_inclusion_lower_bound=il, power_exclusion_lower_bound=el,
        power_inclusion_upper_bound=iu, power_exclusion_upper_bound=eu,
        temperature=25.0, relay_state=relay, component_state=state, errors=errors or [],
    )


def inv(cid, ts=T0, il=-1000.0, el=0.0, eu=0.0, iu=1000.0, power=0.0,
        state=InverterComponentState.IDLE, errors=None) -> InverterData:
    return InverterData(
        component_id=cid, timestamp=ts, active_power=power, active_power_per_phase=NAN3,
        reactive_power=NAN, reactive_power_per_phase=NAN3, current_per_phase=NAN3, voltage_per_phase=NAN3,
        active_power_inclusion_lower_bound=il, active_power_exclusion_lower_bound=el,
        active_power_inclusion_upper_bound=iu, active_power_exclusion_upper_bound=eu,
        frequency=50.0, component_state=state, errors=errors or [],
    )


def meter(cid, ts=T0, power=0.0, per_phase=NAN3, current=NAN3, voltage=NAN3, reactive=NAN,
          frequency=50.0) -> MeterData:
    return MeterData(
        component_id=cid, timestamp=ts, active_power=power, active_power_per_phase=per_phase,
        reactive_power=reactive, reactive_power_per_phase=NAN3, current_per_phase=current,
        voltage_per_phase=voltage, frequency=frequency,
    )


def ev(cid, ts=T0, power=0.0, il=0.0, iu=1000.0, current=NAN3, voltage=NAN3,
       cable=EVChargerCableState.EV_LOCKED, state=EVChargerComponentState.READY) -> EVChargerData:
    return EVChargerData(
        component_id=cid, timestamp=ts, active_power=power, active_power_per_phase=NAN3,
        current_per_phase=current, reactive_power=NAN, reactive_power_per_phase=NAN3,
        voltage_per_phase=voltage, active_power_inclusion_lower_bound=il,
        active_power_exclusion_lower_bound=0.0, active_power_inclusion_upper_bound=iu,
        active_power_exclusion_upper_bound=0.0, frequency=50.0, cable_state=cable, component_state=state,
    )


class FakeApiClient:
    """Fake ``ApiClient``: data streams are Broadcast channels fed by the harness; every
    ``set_power`` call is recorded and completes as ``on_set_power`` decides."""

    def __init__(self, components: set[Component], connections: set[Connection]):
        self._components = components
        self._connections = connections
        self.channels: dict[int, Broadcast[Any]] = {}
        self.senders: dict[int, Any] = {}
        self.set_power_calls: list[tuple[int, float]] = []
        self.on_set_power: Callable[[int, float, int], Any] | None = None  # may return awaitable / raise
        self.stream_requests: list[tuple[str, int]] = []

    def _chan(self, cid: int) -> Broadcast[Any]:
        if cid not in self.channels:
            self.channels[cid] = Broadcast(name=f"raw-component-data-{cid}", resend_latest=False)
            self.senders[cid] = self.channels[cid].new_sender()
        return self.channels[cid]

    async def components(self):
        return self._components

    async def connections(self, starts=frozenset(), ends=frozenset()):
        return self._connections

    async def _data(self, kind: str, cid: int, maxsize: int = 50):
        self.stream_requests.append((kind, cid))
        return self._chan(cid).new_receiver(limit=maxsize)

    async def meter_data(self, component_id: int, maxsize: int = 50):
        return await self._data("meter", component_id, maxsize)

    async def battery_data(self, component_id: int, maxsize: int = 50):
        return await self._data("battery", component_id, maxsize)

    async def inverter_data(self, component_id: int, maxsize: int = 50):
        return await self._data("inverter", component_id, maxsize)

    async def ev_charger_data(self, component_id: int, maxsize: int = 50):
        return await self._data("ev", component_id, maxsize)

    async def set_power(self, component_id: int, power_w: float) -> None:
        idx = len(self.set_power_calls)
        self.set_power_calls.append((component_id, power_w))
        if self.on_set_power is not None:
            r = self.on_set_power(component_id, power_w, idx)
            if asyncio.isfuture(r) or asyncio.iscoroutine(r):
                await r

    async def set_bounds(self, component_id: int, lower: float, upper: float) -> None:
        pass

    def push(self, data: Any) -> None:
        """Deliver one data message synchronously (Broadcast.send never blocks)."""
        cid = data.component_id
        self._chan(cid)
        coro = self.senders[cid].send(data)
        try:
            coro.send(None)
        except StopIteration:
            return
        raise RuntimeError("Broadcast.send() suspended; fake assumes it completes synchronously")


class FakeConnectionManager:
    def __init__(self, api: FakeApiClient, graph: _MicrogridComponentGraph):
        self._api = api
        self._graph = graph

    @property
    def api_client(self):
        return self._api

    @property
    def component_graph(self):
        return self._graph

    @property
    def microgrid_id(self):
        return 8

    @property
    def location(self):
        return None

    @property
    def server_url(self):
        return "grpc://fake"


@contextmanager
def fake_microgrid(components: set[Component], connections: set[Connection], validate: bool = True):
    """Install a fake connection manager (real component graph) for the duration."""
    graph = _MicrogridComponentGraph(components, connections)
    api = FakeApiClient(components, connections)
    cm = FakeConnectionManager(api, graph)
    saved = connection_manager._CONNECTION_MANAGER
    connection_manager._CONNECTION_MANAGER = cm
    try:
        yield cm
    finally:
        connection_manager._CONNECTION_MANAGER = saved


def comp(cid: int, cat: ComponentCategory, typ=None) -> Component:
    return Component(cid, cat, typ)


def battery_graph(groups: list[tuple[list[int], list[int]]], meter_per_group: bool = False):
    """grid(1) - meter(2) - {inverters} - {batteries}; groups = [(battery_ids, inverter_ids)]."""
    comps = {comp(1, ComponentCategory.GRID), comp(2, ComponentCategory.METER)}
    conns = {Connection(1, 2)}
    for bats, invs in groups:
        for i in invs:
            comps.add(comp(i, ComponentCategory.INVERTER, InverterType.BATTERY))
            conns.add(Connection(2, i))
        for b in bats:
            comps.add(comp(b, ComponentCategory.BATTERY))
            for i in invs:
                conns.add(Connection(i, b))
    return comps, conns
