"""E1 exploration: deviation-bounded, stateless (re-execution based) schedule search.

A *scenario* is a callable ``scenario(chooser) -> Observation`` that builds a fresh
virtual loop, drives real SDK objects and consults ``chooser.choose(n, label,
dev=...)`` for every environment decision.  Option 0 is the default answer.  Choice
points with ``dev=False`` belong to the property's alphabet (which enabled event comes
next) and are explored exhaustively; choosing a non-zero option at a ``dev=True`` point
costs one deviation, and executions with more deviations than the bound are not run.
"""
from __future__ import annotations

import gc
import multiprocessing as mp
import os
import time
from dataclasses import dataclass, field
from typing import Any, Callable

from .core import Acc, Violation
from .vloop import WatchdogTimeout


class Nondeterminism(RuntimeError):
    """Replay of a recorded prefix met a different choice point: infrastructure error."""


def sdk_origin(e: BaseException) -> list[str] | None:
    """If ``e`` was raised inside the code under test (the innermost frames of its traceback, after the last
    harness frame, belong to the SDK), return those frames as ``file:line`` strings, else None."""
    import traceback

    frames = [f for f in traceback.extract_tb(e.__traceback__) if f.name != "_on_alarm"]
    last_harness = max((i for i, f in enumerate(frames) if "/mc/" in f.filename and "/frequenz/" not in f.filename), default=-1)
    tail = frames[last_harness + 1:]
    sdk = [f for f in tail if "/frequenz/sdk/" in f.filename]
    if not sdk:
        return None
    return [f"{f.filename.split('/frequenz/sdk/')[-1] if '/frequenz/sdk/' in f.filename else f.filename.split('/')[-1]}:{f.lineno}"
            for f in tail][-4:]


CRASH_CLAUSE = "sdk_call_does_not_raise"
HANG_CLAUSE = "sdk_code_yields_or_terminates"


def crash_detail(e: BaseException, where: list[str]) -> dict:
    return {"exception": repr(e)[:400], "raised_at": where}


class Chooser:
    def __init__(self, prefix: list[int] | tuple[int, ...] = (), labels: list | None = None):
        self.prefix = list(prefix)
        self.expect_labels = labels
        self.trace: list[tuple[int, int, bool, Any]] = []  # (arity, choice, is_dev, label)

    def choose(self, n: int, label: Any = None, dev: bool = False) -> int:
        assert n >= 1
        i = len(self.trace)
        if i < len(self.prefix):
            c = self.prefix[i]
            if c >= n:
                raise Nondeterminism(f"choice {i}: recorded option {c} but arity {n} ({label!r})")
            if self.expect_labels is not None and i < len(self.expect_labels):
                if self.expect_labels[i] != _lab(label):
                    raise Nondeterminism(
                        f"choice {i}: label {label!r} differs from recorded {self.expect_labels[i]!r}"
                    )
        else:
            c = 0
        self.trace.append((n, c, dev, label))
        return c

    @property
    def choices(self) -> list[int]:
        return [t[1] for t in self.trace]

    @property
    def deviations(self) -> int:
        return sum(1 for (_, c, dev, _) in self.trace if dev and c > 0)


def _lab(label: Any) -> str:
    return repr(label)


@dataclass
class Observation:
    """What a scenario returns for one complete execution."""

    outcome: Any = None  # hashable summary; distinct outcomes are counted
    violations: list = field(default_factory=list)  # list of (clause, detail)
    events: int = 0  # environment events fired (transitions)
    state_keys: list = field(default_factory=list)  # canonical quiescent states seen
    nontrivial: bool = False
    clauses: dict = field(default_factory=dict)  # clause -> number of evaluations
    counters: dict = field(default_factory=dict)
    sample: Any = None


def _dfs(scenario: Callable[[Chooser], Observation], root: list[int], bound: int, acc: Acc,
         mkcase: Callable[[list[int]], dict], deadline: float | None, max_exec: int | None,
         classes: Callable[[Observation, list[int]], tuple] | None = None) -> None:
    stack: list[list[int]] = [list(root)]
    n = 0
    while stack:
        if (deadline is not None and time.perf_counter() > deadline) or (
            max_exec is not None and n >= max_exec
        ):
            acc.caps.append(
                f"E1 search stopped early with {len(stack)} subtree root(s) unexplored (bound {bound})"
            )
            break
        if _abort_requested():
            acc.caps.append("search abandoned: an execution did not terminate (reported as a violation)")
            break
        prefix = stack.pop()
        ch = Chooser(prefix)
        obs = run_scenario(scenario, ch)
        n += 1
        record(acc, obs, ch, mkcase, classes)
        if obs.outcome == "sdk-does-not-terminate":
            _request_abort()
            acc.caps.append("search abandoned: an execution did not terminate (reported as a violation)")
            break
        devs = 0
        tr = ch.trace
        for i, (k, c, dev, _) in enumerate(tr):
            if i < len(prefix):
                if dev and c > 0:
                    devs += 1
                continue
            if k > 1 and devs + (1 if dev else 0) <= bound:
                base = [t[1] for t in tr[:i]]
                for alt in range(k - 1, 0, -1):
                    stack.append(base + [alt])
        if n % 2000 == 0:
            gc.collect()


def run_scenario(scenario, ch: Chooser) -> Observation:
    """One execution; an exception raised by the SDK into a synchronous harness call is a violation of the
    execution (with the schedule as its witness), not a failure of the check."""
    try:
        return scenario(ch)
    except Nondeterminism:
        raise
    except WatchdogTimeout as e:
        where = sdk_origin(e)
        if where is None:
            raise RuntimeError(f"the harness itself exceeded the watchdog: {e}") from e
        return Observation(outcome="sdk-does-not-terminate", violations=[(HANG_CLAUSE, crash_detail(e, where))])
    except (KeyboardInterrupt, SystemExit, MemoryError):
        raise
    except BaseException as e:  # noqa: BLE001
        where = sdk_origin(e)
        if where is None:
            if isinstance(e, Exception):
                raise
            raise RuntimeError(f"BaseException escaped from the scenario: {e!r}") from e
        return Observation(outcome="sdk-exception", violations=[(CRASH_CLAUSE, crash_detail(e, where))])


def record(acc: Acc, obs: Observation, ch: Chooser, mkcase, classes=None) -> None:
    acc.evaluations += 1
    acc.traces += 1
    acc.transitions += obs.events
    if obs.nontrivial:
        acc.nontrivial += 1
    acc.outcome(obs.outcome)
    for k in obs.state_keys:
        acc.state(k)
    for c, m in obs.clauses.items():
        acc.clauses[c] += m
    for c, m in obs.counters.items():
        if c.startswith("max_"):
            acc.counters[c] = max(acc.counters.get(c, 0), m)
        else:
            acc.counters[c] += m
    acc.counters["max_choice_points"] = max(acc.counters.get("max_choice_points", 0), len(ch.trace))
    if obs.sample is not None:
        acc.sample(obs.sample)
    for clause, detail in obs.violations:
        case = mkcase(ch.choices)
        case["labels"] = [_lab(t[3]) for t in ch.trace]
        acc.violation(
            Violation(clause, case, detail, tuple(classes(obs, ch.choices)) if classes else ())
        )


# ---------------------------------------------------------------------------
# parallel driver
# ---------------------------------------------------------------------------

_G: dict[str, Any] = {}


def _abort_requested() -> bool:
    ev = _G.get("abort")
    return bool(ev is not None and ev.is_set())


def _request_abort() -> None:
    ev = _G.get("abort")
    if ev is not None:
        ev.set()


def _worker(args):
    root, bound, deadline_rel, max_exec = args
    acc = Acc()
    deadline = None if deadline_rel is None else _G["t0"] + deadline_rel
    _dfs(_G["scenario"], root, bound, acc, _G["mkcase"], deadline, max_exec, _G.get("classes"))
    return acc


def explore(scenario: Callable[[Chooser], Observation], bound: int, mkcase: Callable[[list[int]], dict],
            workers: int = 1, time_cap_s: float | None = None, max_exec: int | None = None,
            classes=None, fanout: int = 256) -> Acc:
    """Explore every execution of ``scenario`` with at most ``bound`` deviations."""
    t0 = time.perf_counter()
    acc = Acc()
    if workers <= 1:
        _dfs(scenario, [], bound, acc, mkcase, None if time_cap_s is None else t0 + time_cap_s,
             max_exec, classes)
        return acc
    # expand breadth-first in the parent until there are enough subtree roots
    frontier: list[tuple[list[int], int]] = [([], 0)]  # (prefix, devs in prefix)
    roots: list[list[int]] = []
    expanded = 0
    while frontier and len(frontier) + len(roots) < fanout and expanded < 4 * fanout:
        prefix, _ = frontier.pop(0)
        ch = Chooser(prefix)
        obs = run_scenario(scenario, ch)
        expanded += 1
        record(acc, obs, ch, mkcase, classes)
        if obs.outcome == "sdk-does-not-terminate":
            acc.caps.append("search abandoned: an execution did not terminate (reported as a violation)")
            return acc
        devs = 0
        for i, (k, c, dev, _) in enumerate(ch.trace):
            if i < len(prefix):
                if dev and c > 0:
                    devs += 1
                continue
            if k > 1 and devs + (1 if dev else 0) <= bound:
                base = [t[1] for t in ch.trace[:i]]
                for alt in range(1, k):
                    frontier.append((base + [alt], devs + (1 if dev else 0)))
    roots = [p for p, _ in frontier]
    if not roots:
        return acc
    ctx = mp.get_context("fork")
    _G.update(scenario=scenario, mkcase=mkcase, classes=classes, t0=t0, abort=ctx.Event())
    per = None if max_exec is None else max(1, max_exec // max(1, len(roots)))
    with ctx.Pool(min(workers, len(roots))) as pool:
        for a in pool.imap_unordered(_worker, [(r, bound, time_cap_s, per) for r in roots], chunksize=1):
            acc.merge(a)
    return acc


def replay_choices(scenario: Callable[[Chooser], Observation], choices: list[int],
                   labels: list | None = None) -> Observation:
    """Re-execute exactly one recorded schedule (no search)."""
    ch = Chooser(choices, labels)
    obs = run_scenario(scenario, ch)
    if obs.outcome in ("sdk-exception", "sdk-does-not-terminate"):
        return obs
    if len(ch.trace) < len(choices):
        raise Nondeterminism("execution ended before the recorded schedule was consumed")
    return obs


def determinism_selfcheck(scenario: Callable[[Chooser], Observation], k: int = 6) -> None:
    """Run the default schedule and up to ``k`` one-step departures from it twice each;
    the two observations must be identical, else it is an infrastructure error."""

    def sig(o: Observation):
        return (o.outcome, repr(o.violations), o.events, tuple(o.state_keys))

    ch = Chooser([])
    a = scenario(ch)
    prefixes = [[]]
    tr = ch.trace
    step = max(1, len(tr) // max(1, k))
    for i in range(0, len(tr), step):
        if tr[i][0] > 1:
            prefixes.append([t[1] for t in tr[:i]] + [tr[i][0] - 1])
    for p in prefixes[: k + 1]:
        c1, c2 = Chooser(p), Chooser(p)
        x, y = scenario(c1), scenario(c2)
        if sig(x) != sig(y) or [t[:3] for t in c1.trace] != [t[:3] for t in c2.trace]:
            raise Nondeterminism(f"schedule {p} produced two different observations")


# ---------------------------------------------------------------------------
# generic parallel map for E2/E3 shards
# ---------------------------------------------------------------------------


def run_shard(fn, shard) -> Acc:
    """``fn(shard)``; an exception raised by the SDK into a synchronous harness call becomes a violation whose
    witness is the shard itself (re-run by ``--replay``)."""
    try:
        return fn(shard)
    except Nondeterminism:
        raise
    except (SystemExit, MemoryError):
        raise
    except BaseException as e:  # noqa: BLE001
        if isinstance(e, KeyboardInterrupt) and not isinstance(e, WatchdogTimeout):
            raise
        where = sdk_origin(e)
        if where is None:
            if isinstance(e, Exception):
                raise
            # a pool worker that dies with a BaseException makes the parent wait for ever
            raise RuntimeError(f"BaseException escaped from shard {shard!r}: {e!r}") from e
        import base64
        import pickle

        clause = HANG_CLAUSE if isinstance(e, WatchdogTimeout) else CRASH_CLAUSE
        acc = Acc()
        acc.evaluations += 1
        acc.clauses[clause] += 1
        case = {"crash_in_shard": {"module": fn.__module__, "fn": fn.__qualname__,
                                   "shard_pickle": base64.b64encode(pickle.dumps(shard)).decode(), "shard": repr(shard)[:300]}}
        acc.violation(Violation(clause, case, crash_detail(e, where)))
        if clause == HANG_CLAUSE:
            _request_abort()
        return acc


def replay_crash(case: dict):
    import base64
    import importlib
    import pickle

    c = case["crash_in_shard"]
    fn = getattr(importlib.import_module(c["module"]), c["fn"])
    acc = run_shard(fn, pickle.loads(base64.b64decode(c["shard_pickle"])))
    return [(v.clause, v.detail) for v in acc.violations.values()]


def _shard_worker(args):
    fn_name, shard = args
    if _abort_requested():
        a = Acc()
        a.caps.append("shard skipped: an execution did not terminate (reported as a violation)")
        return a
    return run_shard(_G["shard_fns"][fn_name], shard)


def pmap_acc(fn: Callable[[Any], Acc], shards: list, workers: int) -> Acc:
    """Run ``fn(shard) -> Acc`` over shards (fork pool) and merge."""
    acc = Acc()
    if workers <= 1 or len(shards) <= 1:
        for s in shards:
            acc.merge(run_shard(fn, s))
        return acc
    _G.setdefault("shard_fns", {})[fn.__qualname__] = fn
    ctx = mp.get_context("fork")
    _G["abort"] = ctx.Event()
    with ctx.Pool(min(workers, len(shards))) as pool:
        for a in pool.imap_unordered(_shard_worker, [(fn.__qualname__, s) for s in shards], chunksize=1):
            acc.merge(a)
    return acc


def default_workers(tier: str) -> int:
    env = os.environ.get("VERIF_WORKERS")
    if env:
        return max(1, int(env))
    n = os.cpu_count() or 1
    return max(1, min(16, n)) if tier == "thorough" else max(1, min(8, n))
