"""Shared bookkeeping: violations, mergeable coverage accumulators, evidence, findings."""
from __future__ import annotations

import collections
import hashlib
import json
import os
import subprocess
import sys
import time
from dataclasses import dataclass, field
from pathlib import Path
from typing import Any

ROOT = Path(__file__).resolve().parent.parent
EVIDENCE_DIR = ROOT / "evidence"
REPLAY_DIR = ROOT / "replays"
FINDINGS_FILE = ROOT / "known_findings.json"

MAX_VIOLATIONS_KEPT = 40  # distinct (clause, key) pairs kept per run
MAX_SAMPLES = 6


def jsonable(x: Any) -> Any:
    """Best-effort conversion to JSON-able data (used for cases and details)."""
    import math
    from datetime import datetime, timedelta

    if isinstance(x, float):
        if math.isnan(x):
            return "NaN"
        if math.isinf(x):
            return "Infinity" if x > 0 else "-Infinity"
        return x
    if x is None or isinstance(x, (bool, int, str)):
        return x
    if isinstance(x, dict):
        return {str(k): jsonable(v) for k, v in x.items()}
    if isinstance(x, (list, tuple)):
        return [jsonable(v) for v in x]
    if isinstance(x, (set, frozenset)):
        return sorted((jsonable(v) for v in x), key=repr)
    if isinstance(x, datetime):
        return x.isoformat()
    if isinstance(x, timedelta):
        return x.total_seconds()
    return repr(x)


def digest(obj: Any) -> str:
    return hashlib.sha1(json.dumps(jsonable(obj), sort_keys=True).encode()).hexdigest()[:16]


@dataclass
class Violation:
    """One failing case.

    clause:  name of the oracle clause that failed.
    case:    JSON-able, sufficient for ``replay`` to re-execute exactly this case.
    detail:  what was observed vs expected.
    classes: input-only class tags (used solely for known-finding matching).
    """

    clause: str
    case: dict
    detail: dict = field(default_factory=dict)
    classes: tuple = ()

    def key(self) -> str:
        return self.clause + ":" + digest(self.case)


class Acc:
    """Mergeable coverage accumulator (one per shard, merged by the runner)."""

    def __init__(self) -> None:
        self.evaluations = 0
        self.nontrivial = 0  # distinct by construction of the enumerators (no repeats)
        self.states = 0
        self.transitions = 0
        self.traces = 0
        self.outcomes: collections.Counter = collections.Counter()
        self.clauses: collections.Counter = collections.Counter()  # clause -> times checked
        self.viol_counts: collections.Counter = collections.Counter()  # clause -> failures
        self.violations: dict[str, Violation] = {}
        self.samples: list = []
        self.caps: list[str] = []
        self.extra: dict[str, Any] = {}
        self.counters: collections.Counter = collections.Counter()
        self.state_keys: set | None = None  # optional set of canonical-state digests

    # -- recording -------------------------------------------------------------
    def violation(self, v: Violation) -> None:
        self.viol_counts[v.clause] += 1
        k = v.key()
        if k not in self.violations and len(self.violations) < MAX_VIOLATIONS_KEPT:
            self.violations[k] = v

    def sample(self, s: Any) -> None:
        if len(self.samples) < MAX_SAMPLES:
            self.samples.append(jsonable(s))

    def outcome(self, o: Any) -> None:
        self.outcomes[o if isinstance(o, str) else json.dumps(jsonable(o), sort_keys=True)] += 1

    def state(self, key: Any) -> bool:
        """Record a canonical state; returns True when new."""
        if self.state_keys is None:
            self.state_keys = set()
        d = key if isinstance(key, (str, bytes, int)) else digest(key)
        if d in self.state_keys:
            return False
        self.state_keys.add(d)
        return True

    # -- merging ---------------------------------------------------------------
    def merge(self, o: "Acc") -> None:
        self.evaluations += o.evaluations
        self.nontrivial += o.nontrivial
        self.states += o.states
        self.transitions += o.transitions
        self.traces += o.traces
        self.outcomes.update(o.outcomes)
        self.clauses.update(o.clauses)
        self.viol_counts.update(o.viol_counts)
        for k, v in o.counters.items():
            if k.startswith("max_"):
                self.counters[k] = max(self.counters.get(k, 0), v)
            else:
                self.counters[k] += v
        for k, v in o.violations.items():
            if k not in self.violations and len(self.violations) < MAX_VIOLATIONS_KEPT:
                self.violations[k] = v
        for s in o.samples:
            if len(self.samples) < MAX_SAMPLES:
                self.samples.append(s)
        for c in o.caps:
            if c not in self.caps:
                self.caps.append(c)
        for k, v in o.extra.items():
            if isinstance(v, (int, float)) and isinstance(self.extra.get(k), (int, float)):
                self.extra[k] += v
            elif isinstance(v, list) and isinstance(self.extra.get(k), list):
                self.extra[k] = (self.extra[k] + v)[:20]
            else:
                self.extra.setdefault(k, v)
        if o.state_keys is not None:
            if self.state_keys is None:
                self.state_keys = set()
            self.state_keys |= o.state_keys


# ---------------------------------------------------------------------------
# known findings
# ---------------------------------------------------------------------------


def load_findings(pid: str) -> list[dict]:
    if not FINDINGS_FILE.exists():
        return []
    data = json.loads(FINDINGS_FILE.read_text())
    return [f for f in data.get("findings", []) if f.get("property") == pid]


def match_finding(v: Violation, findings: list[dict]) -> dict | None:
    """A finding matches on the failed clause plus either the exact case digest or an
    input-only class tag computed by the check (never on the observed output)."""
    for f in findings:
        if f.get("clause") not in (None, v.clause):
            continue
        if "clauses" in f and v.clause not in f["clauses"]:
            continue
        if "case_digest" in f and f["case_digest"] == digest(v.case):
            return f
        if "input_class" in f and f["input_class"] in v.classes:
            return f
    return None


# ---------------------------------------------------------------------------
# finishing a run
# ---------------------------------------------------------------------------


def write_replay(pid: str, v: Violation) -> Path:
    d = REPLAY_DIR / pid
    d.mkdir(parents=True, exist_ok=True)
    p = d / (digest([v.clause, v.case]) + ".json")
    p.write_text(
        json.dumps(
            {
                "property": pid,
                "clause": v.clause,
                "case": jsonable(v.case),
                "detail": jsonable(v.detail),
                "classes": list(v.classes),
            },
            indent=1,
            sort_keys=True,
        )
    )
    return p


def finish(
    pid: str,
    tier: str,
    seed: int,
    acc: Acc,
    t0: float,
    rule: str,
    assumptions: list[str],
    exhaustive: bool,
    bounds: dict,
    level: str = "model_checking",
) -> int:
    """Write evidence, print verdict lines, return the process exit code."""
    findings = load_findings(pid)
    new: list[tuple[Violation, Path]] = []
    known: dict[str, int] = collections.Counter()
    per_clause: collections.Counter = collections.Counter()
    unlisted = 0
    ordered = sorted(acc.violations.values(), key=lambda v: (len(json.dumps(jsonable(v.case))), v.key()))
    for v in ordered:
        f = match_finding(v, findings)
        if f is not None:
            known[f["id"]] += 1
            continue
        unlisted += 1
        if per_clause[v.clause] < 2 and len(new) < 8:  # smallest witnesses first; one defect must not flood
            per_clause[v.clause] += 1
            new.append((v, write_replay(pid, v)))
    states = acc.states if acc.state_keys is None else max(acc.states, len(acc.state_keys))
    coverage = {
        "states": max(states, 0),
        "transitions": acc.transitions,
        "traces_validated_against_impl": acc.traces,
        "evaluations": acc.evaluations,
        "distinct_nontrivial": acc.nontrivial,
        "rule": rule,
        "samples": acc.samples or [{"note": "no sample recorded"}],
        "exhaustive": bool(exhaustive and not acc.caps),
        "bounds_completed": bounds,
        "caps_hit": acc.caps,
        "distinct_outcomes": len(acc.outcomes),
        "outcome_histogram_top": dict(acc.outcomes.most_common(12)),
        "clauses_checked": dict(acc.clauses),
        "clause_failures": dict(acc.viol_counts),
        "counters": dict(acc.counters),
        "known_findings_matched": dict(known),
    }
    coverage.update(jsonable(acc.extra))
    ev = {
        "property_id": pid,
        "tier": tier,
        "seed": seed,
        "level": level,
        "coverage": coverage,
        "assumptions": assumptions,
        "wall_s": round(time.perf_counter() - t0, 3),
        "violations": len(new),
    }
    if not os.environ.get("VERIF_NO_EVIDENCE"):  # set by mutation experiments only
        EVIDENCE_DIR.mkdir(exist_ok=True)
        path = EVIDENCE_DIR / f"{pid}.json"
        path.write_text(json.dumps(ev, indent=1, sort_keys=True))
        validate_evidence(path)
    print(
        f"[{pid}] tier={tier} seed={seed} evaluations={acc.evaluations} states={coverage['states']} "
        f"transitions={acc.transitions} traces={acc.traces} nontrivial={acc.nontrivial} "
        f"outcomes={len(acc.outcomes)} exhaustive={coverage['exhaustive']} wall={ev['wall_s']}s"
    )
    for c in acc.caps:
        print(f"[{pid}] CAP: {c}")
    for fid, n in sorted(known.items()):
        f = next(x for x in findings if x["id"] == fid)
        print(f"KNOWN-FINDING: property={pid} {f['what']} (id={fid}, {n} witness(es) this run)")
    for v, p in new:
        print(f"VIOLATION property={pid} replay={p}")
        print(f"    clause={v.clause} detail={json.dumps(jsonable(v.detail))[:600]}")
    if new:
        print(f"[{pid}] failures per clause: {dict(acc.viol_counts)} ({unlisted} distinct unlisted witnesses kept, {len(new)} written)")
    return 1 if new else 0


_SCHEMA = Path("/root/.vp/EVIDENCE.schema.json")


def validate_evidence(path: Path) -> None:
    """Schema-check the evidence with python3-vt's jsonschema when both are present."""
    if os.environ.get("VERIF_NO_SCHEMA") or not _SCHEMA.exists():
        return
    code = (
        "import json,sys,jsonschema;"
        "jsonschema.validate(json.load(open(sys.argv[1])), json.load(open(sys.argv[2])))"
    )
    try:
        r = subprocess.run(
            ["python3-vt", "-c", code, str(path), str(_SCHEMA)], capture_output=True, text=True, timeout=60
        )
    except (FileNotFoundError, subprocess.TimeoutExpired):
        return
    if r.returncode != 0:
        print(f"INFRA-ERROR: evidence {path} does not validate: {r.stderr[-400:]}", file=sys.stderr)
        raise SystemExit(3)
